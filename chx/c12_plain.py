"""CrossHair contracts (engine B) for polyply.src.simple_seq_parsers._parse_plain with arbitrary characters."""
from polyply.src.simple_seq_parsers import _parse_plain

DNA = {"A": "DA", "C": "DC", "G": "DG", "T": "DT"}
AA = {"G": "GLY", "A": "ALA", "V": "VAL", "C": "CYS", "P": "PRO", "L": "LEU", "I": "ILE", "M": "MET", "W": "TRP", "F": "PHE", "S": "SER",
      "T": "THR", "Y": "TYR", "N": "ASN", "Q": "GLN", "K": "LYS", "R": "ARG", "H": "HIS", "D": "ASP", "E": "GLU", "O": "HYP"}


def plain_protein(seq: str) -> bool:
    """
    pre: 1 <= len(seq) <= 2
    pre: seq == seq.strip()
    post: _
    """
    known = all(c in AA for c in seq)
    try:
        g = _parse_plain([seq], AA=True)
    except IOError:
        return not known
    if not known:
        return False
    names = [g.nodes[i]["resname"] for i in range(len(seq))]
    return len(g.nodes) == len(seq) and names == [AA[c] for c in seq] and \
        sorted(g.edges) == [(i, i + 1) for i in range(len(seq) - 1)] and all(g.nodes[i]["resid"] == i + 1 for i in range(len(seq)))


def plain_dna(seq: str) -> bool:
    """
    pre: 2 <= len(seq) <= 3
    pre: seq == seq.strip()
    post: _
    """
    known = all(c in DNA for c in seq)
    try:
        g = _parse_plain([seq], DNA=True)
    except IOError:
        return not known
    if not known:
        return False
    want = [DNA[c] for c in seq]
    want[0] += "5"
    want[-1] += "3"
    return [g.nodes[i]["resname"] for i in range(len(seq))] == want


# networkx compiles its decorated functions lazily with exec(); one concrete call before CrossHair starts tracing
_parse_plain(["AV"], AA=True)
_parse_plain(["AT"], DNA=True)
