"""CrossHair contracts (engine B) for polyply.src.annotate_ligands.parse_residue_spec with arbitrary name strings."""
from polyply.src.annotate_ligands import parse_residue_spec


def _ok_name(s: str) -> bool:
    return "#" not in s and "-" not in s


def spec_names_only(molname: str, resname: str) -> bool:
    """
    pre: len(molname) <= 3 and len(resname) <= 3
    pre: _ok_name(molname) and _ok_name(resname)
    post: _
    """
    spec = molname + "-" + resname
    want = {}
    if resname:
        want["resname"] = resname
    if molname:
        want["molname"] = molname
    return parse_residue_spec(spec) == want


def spec_with_ids(molname: str, resname: str, molidx: str, resid: str) -> bool:
    """
    pre: len(molname) <= 1 and len(resname) <= 1
    pre: _ok_name(molname) and _ok_name(resname)
    pre: molidx in ("0", "7", "12") and resid in ("0", "3", "25")
    post: _
    """
    spec = molname + "#" + molidx + "-" + resname + "#" + resid
    want = {"mol_idx": int(molidx), "resid": float(resid)}
    if resname:
        want["resname"] = resname
    if molname:
        want["molname"] = molname
    return parse_residue_spec(spec) == want


def spec_molecule_only(molname: str, molidx: str) -> bool:
    """
    pre: len(molname) <= 3 and _ok_name(molname)
    pre: molidx in ("0", "7", "12")
    post: _
    """
    want = {"mol_idx": int(molidx)}
    if molname:
        want["molname"] = molname
    return parse_residue_spec(molname + "#" + molidx) == want
