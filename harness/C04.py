"""C04 - Supplied coordinates are preserved; only missing parts are built."""
import numpy as np
import networkx as nx
from pverif.harness import condition, patched
from pverif import symx
from harness.common import (SHAPES, meta_from_shape, make_topology, sentinel, engine_views_consistent, top_text,
                            topology_from_text)
import polyply.src.topology as topmod
import polyply.src.build_system as bs
import polyply.src.backmap as backmap
from polyply.src.random_walk import RandomWalk

BOX = np.array([10.0, 10.0, 10.0])

MOLTYPES = {"PA": [("A", ["a1", "a2"]), ("B", ["b1"]), ("A", ["a1", "a2"])],
            "PB": [("B", ["b1"]), ("C", ["c1", "c2", "c3"])],
            "S": [("S", ["s1"])]}
LAYOUTS_Q = [[("PA", 1), ("S", 1)], [("PB", 2)], [("S", 1), ("PA", 1), ("PB", 1)]]
LAYOUTS_T = LAYOUTS_Q + [[("PA", 2), ("S", 2), ("PB", 1)], [("PB", 1), ("PA", 1), ("PB", 1)]]


@condition("C04.consume",
           anchors=["polyply.src.topology:Topology.add_positions_from_file"],
           rejects=(), selector_only=False, must_cover=["mol", "meta_mol", "incomplete rejected", "skipped", "missing"],
           stubs=["topology._coord_parser -> (array of sentinel rows, box) of symbolic length"],
           outside=["the .gro/.pdb text parsing itself (vermouth)", "systems beyond the layouts listed in the bounds"],
           bounds={"quick": dict(layouts=LAYOUTS_Q, skip=[[], ["B"], ["A", "S"]]),
                   "thorough": dict(layouts=LAYOUTS_T, skip=[[], ["B"], ["A", "S"], ["C"], ["A", "B", "C", "S"]])})
def consume(sx, B):
    """Real Topology.add_positions_from_file on topologies read by the real reader; the coordinate reader is replaced by an
    array of distinct sentinel rows whose length is symbolic (0..number needed), the skip list, the resolution and a permutation of
    the atom `index` inside residues are solver-chosen. Oracle: an independent consumption model. Claims: atom k of a consumed
    residue holds row k in file order; flags build/backmap/position as the statement prescribes for given / centre-only /
    skipped / missing residues; a residue with incomplete coordinates is rejected."""
    layout = sx.sel("layout", B["layouts"])
    skip = sx.sel("skip_res", B["skip"])
    resolution = sx.sel("resolution", ["mol", "meta_mol"])
    permute = sx.sel("permute_index", [False, True])
    top = topology_from_text(top_text(MOLTYPES, layout))
    # expected consumption order: molecules in order, residues in order, atoms by index
    units = []
    for mi, meta in enumerate(top.molecules):
        for node in meta.nodes:
            atoms = sorted(meta.nodes[node]["graph"].nodes, key=lambda a: meta.nodes[node]["graph"].nodes[a]["index"])
            units.append((mi, node, meta.nodes[node]["resname"], atoms))
    if permute:
        # atom keys and file order disagree: swap the `index` of the two atoms of every two-atom residue
        for (mi, node, resname, atoms) in units:
            if len(atoms) == 2:
                g = top.molecules[mi].nodes[node]["graph"]
                i0, i1 = g.nodes[atoms[0]]["index"], g.nodes[atoms[1]]["index"]
                g.nodes[atoms[0]]["index"], g.nodes[atoms[1]]["index"] = i1, i0
                mol = top.molecules[mi].molecule
                mol.nodes[atoms[0]]["index"], mol.nodes[atoms[1]]["index"] = i1, i0
        units = [(mi, node, rn, sorted(atoms, key=lambda a: top.molecules[mi].nodes[node]["graph"].nodes[a]["index"]))
                 for (mi, node, rn, atoms) in units]
    need = sum((1 if resolution == "meta_mol" else len(u[3])) for u in units if u[2] not in skip)
    m = int(sx.int("rows", 0, need))
    rows = np.array([sentinel(k) for k in range(m)]).reshape(m, 3)
    box = np.array([9.0, 8.0, 7.0])
    # independent model
    expect = {}
    total = 0
    rejected = False
    for (mi, node, resname, atoms) in units:
        if resname in skip or total >= m:
            expect[(mi, node)] = ("build", None)
        elif resolution == "meta_mol":
            expect[(mi, node)] = ("centre", total)
            total += 1
        else:
            if total + len(atoms) > m:
                rejected = True
                break
            expect[(mi, node)] = ("given", list(range(total, total + len(atoms))))
            total += len(atoms)
    sx.cover(resolution)
    with patched(topmod, _coord_parser=lambda path, ext: (rows, box)):
        try:
            top.add_positions_from_file("conf.gro", skip_res=skip, resolution=resolution)
        except IOError as err:
            sx.cover("incomplete rejected")
            sx.claim(rejected, "only residues with incomplete coordinates are rejected", lambda: str(err))
            return
    sx.claim(not rejected, "a residue with incomplete coordinates is rejected")
    sx.claim(bool(np.array_equal(top.box, box)), "box of the input structure is taken over")
    for (mi, node, resname, atoms) in units:
        meta = top.molecules[mi]
        nd = meta.nodes[node]
        kind, which = expect[(mi, node)]
        what = lambda: "molecule %d residue %r (%s): %r, expected %s %r" % (mi, node, resname, {k: nd.get(k) for k in ("build", "backmap", "position")}, kind, which)
        if kind == "build":
            sx.cover("skipped" if resname in skip else "missing")
            sx.claim(nd["build"] is True and nd["backmap"] is True and "position" not in nd,
                     "skipped or missing residue is flagged for building and backmapping and has no position", what)
            sx.claim(all("position" not in meta.molecule.nodes[a] for a in atoms), "atoms of a residue to build get no coordinates")
        elif kind == "centre":
            sx.claim(nd["build"] is False and nd["backmap"] is True and bool(np.array_equal(nd["position"], rows[which])),
                     "centre-only residue keeps the given centre and is only backmapped", what)
        else:
            sx.claim(nd["build"] is False and nd["backmap"] is False, "given residue is neither built nor backmapped", what)
            for a, k in zip(atoms, which):
                sx.claim(bool(np.array_equal(meta.molecule.nodes[a].get("position"), rows[k])),
                         "atom receives the coordinate row of its own file position",
                         lambda: "molecule %d atom %r: %r expected row %d %r" % (mi, a, meta.molecule.nodes[a].get("position"), k, rows[k]))
            cog = np.mean(rows[which], axis=0)
            sx.claim(bool(np.allclose(nd["position"], cog, atol=1e-12)), "residue position is the centre of its atoms", what)


def _gro_text(top, rows, box):
    lines = ["pverif", "%5d" % len(rows)]
    k = 0
    for meta in top.molecules:
        mol = meta.molecule
        for a in sorted(mol.nodes, key=lambda x: mol.nodes[x]["index"]):
            if k >= len(rows):
                break
            nd = mol.nodes[a]
            lines.append("%5d%-5s%5s%5d%8.3f%8.3f%8.3f" % (nd["resid"] % 100000, nd["resname"], nd["atomname"], (k + 1) % 100000,
                                                        rows[k][0], rows[k][1], rows[k][2]))
            k += 1
    lines.append("%10.5f%10.5f%10.5f" % tuple(box))
    return "\n".join(lines) + "\n"


SOLV = {"PA": MOLTYPES["PA"], "SOL": [("SOL", ["OW", "HW1"])], "W": [("W", ["W"])], "ION": [("NA", ["NA"])]}


@condition("C04.coordfile",
           anchors=["polyply.src.topology:Topology.add_positions_from_file", "polyply.src.topology:_coord_parser"],
           rejects=(), selector_only=True, must_cover=["gro", "atoms outside the box"],
           outside=[".pdb input", "coordinates with more than three decimals"],
           bounds={"quick": dict(layouts=[[("PA", 1), ("SOL", 2)], [("SOL", 1), ("PA", 1), ("W", 1)], [("ION", 1), ("SOL", 1), ("W", 2)]]),
                   "thorough": dict(layouts=[[("PA", 1), ("SOL", 2)], [("SOL", 1), ("PA", 1), ("W", 1)], [("ION", 1), ("SOL", 1), ("W", 2)],
                                             [("W", 2), ("SOL", 2), ("PA", 1), ("ION", 2)]])})
def coordfile(sx, B):
    """Real add_positions_from_file with the real coordinate reader on a .gro file written into a per-path temp dir (solvent and ion
    residue names included): every atom of the file is consumed in order - no residue name is filtered out by the reader."""
    import tempfile, shutil, os
    layout = sx.sel("layout", B["layouts"])
    top = topology_from_text(top_text(SOLV, layout, atomtypes=("A", "B", "SOL", "W", "NA")))
    natoms = sum(len(m.molecule.nodes) for m in top.molecules)
    rows = np.array([np.round(sentinel(k), 3) for k in range(natoms)])
    if sx.sel("placement", ["inside the box", "whole molecules sticking out of the box"]) != "inside the box":
        # an unwrapped structure: some atoms lie beyond a box face or at negative coordinates; they are kept where they are
        rows[0][0] = -0.08
        rows[natoms - 1][1] = 8.0 + 0.25
        rows[natoms // 2][2] = 7.0 + 6.125
        sx.cover("atoms outside the box")
    d = tempfile.mkdtemp(prefix="pverif_", dir=os.environ.get("TMPDIR"))
    try:
        path = os.path.join(d, "conf.gro")
        with open(path, "w") as f:
            f.write(_gro_text(top, rows, (9.0, 8.0, 7.0)))
        top.add_positions_from_file(path, skip_res=[], resolution="mol")
    finally:
        shutil.rmtree(d, ignore_errors=True)
    sx.cover("gro")
    k = 0
    for mi, meta in enumerate(top.molecules):
        mol = meta.molecule
        for a in sorted(mol.nodes, key=lambda x: mol.nodes[x]["index"]):
            p = mol.nodes[a].get("position")
            sx.claim(p is not None and bool(np.allclose(p, rows[k], atol=1e-9)), "atom keeps exactly the coordinates given for it in the file",
                     lambda: "molecule %d (%s) atom %s: %r expected %r" % (mi, meta.mol_name, mol.nodes[a]["atomname"], p, rows[k]))
            k += 1
        for node in meta.nodes:
            sx.claim(meta.nodes[node]["build"] is False and meta.nodes[node]["backmap"] is False,
                     "completely supplied residue is neither built nor backmapped",
                     lambda: "molecule %d (%s) residue %r" % (mi, meta.mol_name, node))
    sx.claim(bool(np.allclose(top.box, (9.0, 8.0, 7.0))), "box of the input structure is taken over")


class _Tqdm:
    def __init__(self, *a, **k):
        pass

    def update(self, n):
        pass

    def close(self):
        pass


GRID = np.array([[8.5, 8.5, 0.7 + 0.9 * j] for j in range(8)])


@condition("C04.retry_ignore",
           anchors=["polyply.src.build_system:BuildSystem.run_system", "polyply.src.build_system:BuildSystem._compose_system",
                    "polyply.src.build_system:BuildSystem._handle_random_walk", "polyply.src.build_system:_filter_by_molname",
                    "polyply.src.nonbond_engine:NonBondEngine.update_positions_in_molecules",
                    "polyply.src.random_walk:RandomWalk._random_walk"],
           rejects=(), must_cover=["ignored", "retry", "finished"],
           stubs=["RandomWalk.update_positions -> scripted outcome (symbolic boolean per call), a fresh sentinel added through the real add_positions",
                  "build_system.tqdm -> silent", "build_system.np.random.randint -> k-th call returns grid point k"],
           outside=["more placement calls than `calls`", "ignored molecules without coordinates (a user error)"],
           cfg={"path_timeout_s": 20},
           bounds={"quick": dict(calls=7, ignore_pos=["none", "first", "middle", "last"], partial=[0, 1, 3]),
                   "thorough": dict(calls=8, ignore_pos=["none", "first", "middle", "last", "two"], partial=[0, 1, 2, 3, 5, 6])})
def retry_ignore(sx, B):
    """Real BuildSystem.run_system on a system with an ignored molecule type at a solver-chosen place of [molecules], a partially
    supplied chain and a complete molecule, under every failure schedule of single placement steps (symbolic booleans): after every
    interposed step and at the end every supplied position is bit-identical in the engine and in the molecules, ignored molecules
    are never written to, and only residues flagged for building are placed."""
    ignore_pos = sx.sel("ignored_type_position", B["ignore_pos"])
    partial = sx.sel("supplied_mask", B["partial"])
    ncalls = B["calls"]
    outcomes = [sx.bool("o%d" % i) for i in range(ncalls)]
    # molecules: chain C (3 residues, partially supplied), chain D (2 residues, to build), solvent W (supplied, ignored)
    def mk(name, shape):
        return meta_from_shape(shape, name)
    order = {"none": ["C", "D"], "first": ["W", "C", "D"], "middle": ["C", "W", "D"], "last": ["C", "D", "W"],
             "two": ["W", "C", "W", "D"]}[ignore_pos]
    metas, supplied = [], {}
    k = 0
    for mi, nm in enumerate(order):
        if nm == "W":
            m = mk("W", "path2")
            for node in m.nodes:
                m.nodes[node]["position"] = sentinel(50 + k)
                m.nodes[node]["build"] = False
                supplied[(mi, node)] = sentinel(50 + k)
                k += 1
        elif nm == "C":
            m = mk("C", "path3")
            for node in m.nodes:
                if partial >> node & 1:
                    m.nodes[node]["position"] = sentinel(50 + k)
                    m.nodes[node]["build"] = False
                    supplied[(mi, node)] = sentinel(50 + k)
                    k += 1
        else:
            m = mk("D", "path2")
        metas.append(m)
    top = make_topology(metas)
    ignore = ["W"] if ignore_pos != "none" else []
    if ignore:
        sx.cover("ignored")
    state = dict(calls=0, k=0)
    snapshot = {key: np.array(top.molecules[key[0]].nodes[key[1]]["position"], copy=True) for key in supplied}
    w_attrs = {mi: {n: dict(m.nodes[n]) for n in m.nodes} for mi, m in enumerate(metas) if m.mol_name == "W"}

    def check_supplied(eng, where):
        for (mi, node), p in snapshot.items():
            cur = top.molecules[mi].nodes[node].get("position")
            sx.claim(cur is not None and bool(np.array_equal(cur, p)), "supplied position unchanged in the molecule (%s)" % where,
                     lambda: "molecule %d node %r: %r" % (mi, node, cur))

    def scripted(self, vector_bundle, current_node, prev_node):
        eng = self.nonbond_matrix
        mol = self.mol_idx
        if state["calls"] >= ncalls:
            raise symx.PathAbort()
        idx = state["calls"]
        state["calls"] += 1
        molecule = self.molecule
        sx.claim(molecule.mol_name != "W", "ignored molecules are never built")
        sx.claim(molecule.nodes[current_node]["build"] is True, "only residues flagged for building are placed",
                 lambda: "node %r of %s" % (current_node, molecule.mol_name))
        sx.claim(bool(np.all(np.isfinite(eng.get_point(mol, prev_node)))), "grown from a positioned residue")
        for node in molecule.nodes:
            if not molecule.nodes[node]["build"]:
                sx.claim(bool(np.array_equal(eng.get_point(mol, node), molecule.nodes[node]["position"])),
                         "supplied position bit-identical in the engine after every step",
                         lambda: "node %r of %s: engine %r" % (node, molecule.mol_name, eng.get_point(mol, node)))
        check_supplied(eng, "during building")
        if outcomes[idx]:
            pt = sentinel(state["k"])
            state["k"] += 1
            eng.add_positions(pt, mol, current_node, start=False)
            return True
        return False

    class RW(RandomWalk):
        def run_molecule(self, meta_molecule):
            r = RandomWalk.run_molecule(self, meta_molecule)
            if not self.success:
                sx.cover("retry")
            return r
    RW.update_positions = scripted
    grid_idx = []

    class NPR:
        @staticmethod
        def randint(n):
            grid_idx.append(len(grid_idx) % n)
            return grid_idx[-1]

    class NPshim:
        random = NPR

        def __getattr__(self, k):
            return getattr(np, k)

    start_dict = {i: None for i in range(len(metas))}
    with patched(bs, RandomWalk=RW, tqdm=_Tqdm, np=NPshim()):
        builder = bs.BuildSystem(top, density=None, start_dict=start_dict, box=BOX, grid=GRID, maxiter=1, nrewind=3,
                                 ignore=ignore)
        builder.run_system(top.molecules)
    sx.cover("finished")
    check_supplied(builder.nonbond_matrix, "at the end")
    for mi, m in enumerate(metas):
        for node in m.nodes:
            p = m.nodes[node].get("position")
            sx.claim(p is not None and bool(np.all(np.isfinite(p))), "every residue has a finite position at the end",
                     lambda: "molecule %d (%s) node %r: %r" % (mi, m.mol_name, node, p))
        if m.mol_name == "W":
            for n in m.nodes:
                same = set(m.nodes[n]) == set(w_attrs[mi][n]) and all(
                    (np.array_equal(m.nodes[n][a], w_attrs[mi][n][a]) if a == "position" else m.nodes[n][a] == w_attrs[mi][n][a])
                    for a in m.nodes[n])
                sx.claim(same, "ignored molecule is left untouched")
    sx.claim([m.mol_name for m in top.molecules] == order, "molecule list unchanged")


# a block copolymer whose residue numbering restarts in the second block: residues are told apart by (number, name)
MOLTYPES_BM = dict(MOLTYPES, PR=[("A", ["a1", "a2"], 1), ("B", ["b1"], 2), ("D", ["a1", "a2"], 1), ("B", ["b1"], 3)])


@condition("C04.backmap_flagged",
           anchors=["polyply.src.backmap:Backmap._place_init_coords", "polyply.src.backmap:Backmap.run_molecule"],
           rejects=(), selector_only=True, must_cover=["mixed", "residue numbers restart inside the molecule"],
           stubs=["backmap.orient_template -> returns the template unrotated (rotation is C06)"],
           bounds={"quick": dict(layouts=LAYOUTS_Q[:2]), "thorough": dict(layouts=LAYOUTS_T)})
def backmap_flagged(sx, B):
    """Real Backmap.run_molecule with a solver-chosen backmap flag per residue: atoms of unflagged residues keep the identical
    position object, atoms of flagged residues are placed around exactly the residue position."""
    layout = sx.sel("layout", B["layouts"] + [[("PR", 1), ("S", 1)]])
    if layout[0][0] == "PR":
        sx.cover("residue numbers restart inside the molecule")
    top = topology_from_text(top_text(MOLTYPES_BM, layout, atomtypes=("A", "B", "C", "S", "D")))
    k = 0
    flags = {}
    for mi, meta in enumerate(top.molecules):
        meta.templates = {}
        for node in meta.nodes:
            flag = sx.sel("backmap_%d_%s" % (mi, node), [False, True])
            flags[(mi, node)] = flag
            nd = meta.nodes[node]
            nd["backmap"] = flag
            nd["template"] = nd["resname"]
            nd["position"] = sentinel(30 + k)
            k += 1
            atoms = list(nd["graph"].nodes)
            meta.templates[nd["resname"]] = {meta.molecule.nodes[a]["atomname"]: np.array([0.1 * (j + 1), -0.05 * j, 0.02])
                                             for j, a in enumerate(atoms)}
            for a in atoms:
                if not flag:
                    meta.molecule.nodes[a]["position"] = sentinel(100 + k)
                    k += 1
    if len(set(flags.values())) == 2:
        sx.cover("mixed")
    before = {(mi, a): meta.molecule.nodes[a].get("position") for mi, meta in enumerate(top.molecules) for a in meta.molecule.nodes}
    with patched(backmap, orient_template=lambda meta, node, template, built: dict(template)):
        for meta in top.molecules:
            backmap.Backmap(fudge_coords=0.5).run_molecule(meta)
    for mi, meta in enumerate(top.molecules):
        for node in meta.nodes:
            nd = meta.nodes[node]
            for a in nd["graph"].nodes:
                p = meta.molecule.nodes[a].get("position")
                if flags[(mi, node)]:
                    want = nd["position"] + 0.5 * meta.templates[nd["resname"]][meta.molecule.nodes[a]["atomname"]]
                    sx.claim(p is not None and bool(np.allclose(p, want, atol=1e-12)), "flagged residue is backmapped around its own centre",
                             lambda: "molecule %d atom %r: %r expected %r" % (mi, a, p, want))
                else:
                    sx.claim(p is before[(mi, a)], "atoms of residues not flagged for backmapping keep the identical position")



import harness.C17 as _c17      # noqa: E402


@condition("C04.rewind_supplied",
           anchors=["polyply.src.random_walk:RandomWalk._random_walk", "polyply.src.random_walk:RandomWalk._rewind",
                    "polyply.src.build_system:BuildSystem._handle_random_walk"],
           rejects=(), must_cover=["rewound", "abandoned", "finished"], cfg={"path_timeout_s": 20},
           stubs=["as C17.rewind"],
           bounds={"quick": dict(shapes=["path5", "comb5"], calls=7, nrewind=(2, 3), rw_maxiter=(2,), all_subsets=False, attempts=1),
                   "thorough": dict(shapes=["path5", "path6", "comb5", "ring5"], calls=8, nrewind=(2, 4), rw_maxiter=(2, 3), all_subsets=False, attempts=2)},
           budget={"quick": 200, "thorough": 1500})
def rewind_supplied(sx, B):
    """A failed placement attempt never alters or discards supplied coordinates - also when the supplied residue lies between built
    residues inside the rewind window: the C17 harness (real run_system under every failure schedule and rewind depth) on chains with
    supplied residues in every position, with its claims 'supplied residue keeps its position' after every step and at the end."""
    _c17.rewind(sx, B)


import harness.C03 as _c03      # noqa: E402


@condition("C04.end_to_end",
           anchors=["polyply.src.gen_coords:gen_coords", "polyply.src.topology:Topology.add_positions_from_file"],
           rejects=(), selector_only=True, must_cover=["structure", "meta coordinates"],
           stubs=["none: the real gen_coords runs end to end with real files"], cfg={"path_timeout_s": 300},
           outside=["systems larger than the 4-molecule test system"],
           bounds={"quick": dict(), "thorough": dict()}, budget={"quick": 280, "thorough": 900})
def end_to_end(sx, B):
    """The real gen_coords end to end (the C03.end_to_end harness): supplied atom coordinates are written unchanged, residues given
    as centres are backmapped around exactly those centres, also in combination with -res, a build file, -grid and -start."""
    _c03.end_to_end(sx, B)


import harness.C15 as _c15      # noqa: E402


@condition("C04.templates_centred",
           anchors=["polyply.src.build_file_parser:BuildDirector.finalize_section", "polyply.src.generate_templates:GenerateTemplates.gen_templates"],
           rejects=(), selector_only=True, must_cover=["user template", "template defined twice"],
           stubs=["as C15.precedence"], bounds={"quick": dict(), "thorough": dict()})
def templates_centred(sx, B):
    """'backmapped around exactly those centres': a residue given as a centre is backmapped as centre + factor x template, so the
    template must have zero centre of geometry whatever the build files supply (C15.precedence harness: supplied templates,
    supplied volumes, a template defined again in a second build file)."""
    _c15.precedence(sx, B)
