"""C17 - Failed placements are rolled back completely; accepted ones never move."""
import numpy as np
from pverif.harness import condition, patched
from pverif import symx
from harness.common import SHAPES, meta_from_shape, make_topology, sentinel, engine_views_consistent

import polyply.src.build_system as bs
import polyply.src.random_walk as rw
from polyply.src.random_walk import RandomWalk

BOX = np.array([10.0, 10.0, 10.0])
GRID = np.array([[8.5, 8.5, 0.7 + 0.9 * j] for j in range(8)])

Q_SHAPES = ["path3", "path4", "path5", "star4", "comb5", "ring4", "path12"]
T_SHAPES = ["path3", "path4", "path5", "path6", "path7", "star4", "star4b", "comb5", "comb6", "ring3", "ring4", "ring5"]


class _Tqdm:
    def __init__(self, *a, **k):
        pass

    def update(self, n):
        pass

    def close(self):
        pass


def _subsets(n, all_subsets):
    if n >= 10:
        # long chains (more than 10 residues: the engine consolidates its trees after such a molecule): most residues supplied
        full = 2 ** n - 1
        return [full >> 1, full >> 2, (full >> 1) & ~1, full & ~(3 << (n // 2)), full & ~(1 << 3) & ~(1 << (n - 1))]
    if all_subsets:
        return list(range(2 ** n))
    # none, each single node, first two, last two, all but the last, all but the first
    s = {0, 3, (3 << (n - 2)), (2 ** n - 1) >> 1, (2 ** n - 1) & ~1}
    s.update(1 << i for i in range(n))
    return sorted(x for x in s if x < 2 ** n)


@condition("C17.rewind",
           anchors=["polyply.src.random_walk:RandomWalk._random_walk", "polyply.src.random_walk:RandomWalk._rewind",
                    "polyply.src.build_system:BuildSystem._handle_random_walk",
                    "polyply.src.build_system:BuildSystem._compose_system",
                    "polyply.src.nonbond_engine:NonBondEngine.remove_positions",
                    "polyply.src.nonbond_engine:NonBondEngine.add_positions"],
           rejects=(),
           stubs=["RandomWalk.update_positions -> scripted outcome (symbolic boolean per call); on success a fresh sentinel "
                  "point is added through the real NonBondEngine.add_positions",
                  "build_system.tqdm -> silent", "build_system.np.random.randint -> k-th call returns grid point k (distinct points)",
                  "RandomWalk(maxiter=) default 80 replaced by the bound `rw_maxiter` so that the give-up branch is reachable"],
           assumes=["the start grid points do not overlap supplied residues (start grid is placed away from the sentinels)"],
           outside=["schedules with more interposed placement calls than `calls`", "graphs outside the shape catalogue"],
           must_cover=["rewound", "abandoned", "finished", "retry_after_abandon", "tree cached", "trees consolidated",
                       "two copies of one type with different supplied residues", "root chosen before building"],
           cfg={"path_timeout_s": 20},
           bounds={"quick": dict(shapes=Q_SHAPES, calls=7, nrewind=(2, 4), rw_maxiter=(2,), all_subsets=False, attempts=1),
                   "thorough": dict(shapes=T_SHAPES[:8] + ["path12"], calls=9, nrewind=(2, 5), rw_maxiter=(2, 3), all_subsets=False, attempts=2)},
           budget={"quick": 200, "thorough": 1500})
def rewind(sx, B):
    """Real BuildSystem.run_system/_compose_system/_handle_random_walk, RandomWalk._random_walk/_rewind and NonBondEngine on a
    3-molecule system; every single-step outcome is a symbolic boolean. After every interposed call: the residue grown from is
    positioned, the residue to place is not, exactly the residues of earlier tree steps are positioned at the points they were
    accepted with, other molecules are untouched; at the end every residue has exactly one finite position."""
    shape = sx.sel("shape", B["shapes"])
    n, _ = SHAPES[shape]
    given_mask = sx.sel("given", _subsets(n, B["all_subsets"]))
    rw_maxiter = sx.sel("rw_maxiter", B["rw_maxiter"])
    use_start = sx.sel("start_node", [False, True, "root chosen by a persistence restraint"])
    persistence_root = use_start == "root chosen by a persistence restraint"
    if persistence_root:
        use_start = False
    cached = sx.sel("search_tree_cached_before_building", [False, True])
    nrewind = sx.int("nrewind", *B["nrewind"])
    ncalls = B["calls"]
    outcomes = [sx.bool("o%d" % i) for i in range(ncalls)]

    # the first molecule: another type, completely supplied - or another copy of the type of the molecule under study whose
    # coordinates are supplied up to its last residue (an input structure that ends inside the first copy)
    twin = sx.sel("first_molecule", ["another type, supplied", "same type, all but the last residue supplied"]) != "another type, supplied"
    m0 = meta_from_shape(shape, "M1") if twin else meta_from_shape("path2", "M0")
    m1 = meta_from_shape(shape, "M1")
    m2 = meta_from_shape("single", "M2")
    m0_given = list(range(n - 1)) if twin else [0, 1]
    if twin:
        sx.cover("two copies of one type with different supplied residues")
    given = [i for i in range(n) if given_mask >> i & 1]
    supplied = {}
    for j, i in enumerate(given):
        m1.nodes[i]["position"] = sentinel(40 + j)
        m1.nodes[i]["build"] = False
        supplied[i] = m1.nodes[i]["position"].copy()
    # the supplied residues of the first molecule must never be touched
    for i in m0_given:
        m0.nodes[i]["position"] = sentinel(60 + i)
        m0.nodes[i]["build"] = False
    top = make_topology([m0, m1, m2])
    start_dict = {0: None, 1: None, 2: None}
    if use_start:
        # grow from the last node of the catalogue shape, selected the way gen_coords does it (-start <molname>-<resname>#<resid>)
        import polyply.src.gen_coords as _gc
        start_dict = _gc.find_starting_node_from_spec(top, ["M1-A#%d" % n])
        sx.claim(start_dict[1] == n - 1 and start_dict[0] == (n - 1 if twin else None) and start_dict[2] is None,
                 "the start specification selects the named residue")
    if persistence_root:
        # what sample_end_to_end_distances does for a [ persistence_length ] entry that starts at the last residue of the shape:
        # it roots the search tree there (and walks it) before building; no start node is handed to the builder
        m1.root = n - 1
        list(m1.search_tree.edges)
        sx.cover("root chosen before building")
    if cached:
        # as happens when restraints are set up before building (set_restraints / end-to-end sampling walk the search tree)
        list(m1.search_tree.edges)
        sx.cover("tree cached")
    state = dict(calls=0, accepted={}, k=0, attempt_calls=0, step_of={}, abandoned=0)
    engine_box = {}

    def scripted(self, vector_bundle, current_node, prev_node):
        eng = self.nonbond_matrix
        mol = self.mol_idx
        molecule = top.molecules[mol]
        if state["calls"] >= ncalls:
            raise symx.PathAbort()          # beyond the bound on interposed calls
        idx = state["calls"]
        state["calls"] += 1
        if state.get("last_mol") != mol or state.get("rw") is not self:
            if state.get("rw") is not None and state.get("last_mol") == mol and not state["rw"].success:
                sx.cover("retry_after_abandon")
                # a fresh attempt: nothing of the abandoned attempt may be left
                state["accepted"] = {}
            elif state.get("last_mol") != mol:
                state["accepted"] = {}
            state["rw"] = self
            state["last_mol"] = mol
        # 1. grown from a positioned neighbour; target not yet positioned
        sx.claim(bool(np.all(np.isfinite(eng.get_point(mol, prev_node)))), "grown from a positioned residue",
                 lambda: "prev node %r of molecule %d has no position when %r is placed" % (prev_node, mol, current_node))
        sx.claim(bool(np.all(np.isinf(eng.get_point(mol, current_node)))), "residue to place has no position yet",
                 lambda: "node %r already positioned" % (current_node,))
        # 2. exactly the residues of earlier steps are positioned, where they were accepted
        path = list(molecule.search_tree.edges)
        step = path.index((prev_node, current_node))
        earlier = set(c for (_, c) in path[:step] if molecule.nodes[c]["build"])
        later = set(c for (_, c) in path[step:] if molecule.nodes[c]["build"])
        root = molecule.root
        for node in molecule.nodes:
            p = eng.get_point(mol, node)
            if not molecule.nodes[node]["build"]:
                sx.claim(bool(np.array_equal(p, molecule.nodes[node]["position"])), "supplied residue keeps its position",
                         lambda: "node %r: engine has %s, supplied %s" % (node, p, molecule.nodes[node]["position"]))
            elif node in earlier:
                sx.claim(node in state["accepted"] and bool(np.array_equal(p, state["accepted"][node])),
                         "accepted residue still at its accepted position",
                         lambda: "node %r (earlier step) has %s, accepted %s" % (node, p, state["accepted"].get(node)))
            elif node in later:
                sx.claim(bool(np.all(np.isinf(p))), "discarded residue removed",
                         lambda: "node %r belongs to step >= %d but is positioned at %s" % (node, step, p))
            else:
                sx.claim(node == root and bool(np.all(np.isfinite(p))), "root positioned")
        # 3. other molecules untouched
        if mol != 0:
            sx.claim(all(bool(np.array_equal(eng.get_point(0, i), sentinel(60 + i))) for i in m0_given), "earlier molecule untouched")
            if twin:
                sx.claim(bool(np.all(np.isfinite(eng.get_point(0, n - 1)))), "the built residue of the earlier copy stays positioned")
        ok, msg = engine_views_consistent(eng)
        sx.claim(ok, "engine views consistent", msg)
        if outcomes[idx]:
            pt = sentinel(state["k"])
            state["k"] += 1
            eng.add_positions(pt, mol, current_node, start=False)
            state["accepted"][current_node] = pt.copy()
            return True
        return False

    class RW(RandomWalk):
        def _rewind(self, current_step):
            sx.cover("rewound")
            return RandomWalk._rewind(self, current_step)

        def run_molecule(self, meta_molecule):
            self.maxiter = rw_maxiter
            r = RandomWalk.run_molecule(self, meta_molecule)
            if not self.success:
                sx.cover("abandoned")
            return r

    RW.update_positions = scripted
    grid_idx = []

    class NPR:
        @staticmethod
        def randint(n):
            grid_idx.append(len(grid_idx) % n)
            return grid_idx[-1]

    class NPshim:
        random = NPR

        def __getattr__(self, k):
            return getattr(np, k)

    with patched(bs, RandomWalk=RW, tqdm=_Tqdm, np=NPshim()):
        builder = bs.BuildSystem(top, density=None, start_dict=start_dict, box=BOX, grid=GRID,
                                 maxiter=B["attempts"], nrewind=nrewind)
        builder.run_system(top.molecules)
    sx.cover("finished")
    if n > 10:
        sx.cover("trees consolidated")
    eng = builder.nonbond_matrix
    for mi, molecule in enumerate(top.molecules):
        for node in molecule.nodes:
            p = molecule.nodes[node].get("position")
            sx.claim(p is not None and bool(np.all(np.isfinite(p))), "every residue has a finite position at the end",
                     lambda: "molecule %d node %r: %r" % (mi, node, p))
            sx.claim(bool(np.array_equal(p, eng.get_point(mi, node))), "molecule position equals engine position")
    for i, p in supplied.items():
        sx.claim(bool(np.array_equal(m1.nodes[i]["position"], p)), "supplied residue keeps its position",
                 lambda: "node %r" % i)
    for node, p in state["accepted"].items():
        if state.get("last_mol") == 1:
            sx.claim(bool(np.array_equal(m1.nodes[node]["position"], p)), "accepted residue still at its accepted position")
    ok, msg = engine_views_consistent(eng)
    sx.claim(ok, "engine views consistent", msg)
    sx.claim(len(eng.gndx_to_tree) == len(m0) + n + 1, "exactly one position per residue")
