"""C20 - Outputs appear only after success and never clobber existing files."""
import os
import shutil
import tempfile
from pathlib import Path
import numpy as np
from vermouth.file_writer import DeferredFileWriter
from pverif.harness import condition, patched
from pverif import symx
from harness.common import top_text
import polyply.src.gen_itp as gi
import polyply.src.gen_coords as gc
import polyply.src.gen_seq as gs
import polyply.src.apply_links as al
import polyply.src.build_system as bs
import polyply.src.gen_dna as gen_dna

FF = """[ moleculetype ]
A 1
[ atoms ]
1 TA 1 A BB 1 0.0 36.0
2 TS 1 A SC 2 0.0 36.0
[ bonds ]
BB SC 1 0.30 1000
[ moleculetype ]
B 1
[ atoms ]
1 TB 1 B BB 1 0.0 36.0
[ link ]
resname "A|B"
[ bonds ]
BB +BB 1 0.40 4000
"""


class Injected(Exception):
    pass


class _Tqdm:
    def __init__(self, it=None, *a, **k):
        self.it = it

    def __iter__(self):
        return iter(self.it)

    def update(self, n):
        pass

    def close(self):
        pass


def snapshot_dir(d):
    out = {}
    for root, _, files in os.walk(d):
        for f in files:
            p = os.path.join(root, f)
            out[os.path.relpath(p, d)] = open(p, "rb").read()
    return out


def prestate(d, outname, present, nbackups):
    if present:
        (Path(d) / outname).write_text("previous output\n")
    for i in range(1, nbackups + 1):
        (Path(d) / ("#%s.%d#" % (outname, i))).write_text("backup %d\n" % i)


def check_outcome(sx, d, outname, before, failed, present, nbackups, complete):
    after = snapshot_dir(d)
    if failed:
        sx.claim(after == before, "a failure before writing leaves the directory exactly as it was",
                 lambda: "created %r, removed %r, changed %r" % (sorted(set(after) - set(before)), sorted(set(before) - set(after)),
                                                                  sorted(k for k in before if k in after and after[k] != before[k])))
        return
    sx.claim(outname in after and complete(after[outname].decode()), "after success the complete file is in place",
             lambda: "file %s: %r" % (outname, after.get(outname, b"<missing>")[:200]))
    for i in range(1, nbackups + 1):
        nm = "#%s.%d#" % (outname, i)
        sx.claim(after.get(nm) == before.get(nm), "older backups are untouched", lambda: nm)
    if present:
        nm = "#%s.%d#" % (outname, nbackups + 1)
        sx.claim(after.get(nm) == b"previous output\n", "the previous file is kept under the first free GROMACS backup name",
                 lambda: "%s: %r; directory %r" % (nm, after.get(nm), sorted(after)))
    extra = set(after) - set(before) - {outname, "#%s.%d#" % (outname, nbackups + 1)}
    sx.claim(not extra, "no other file is created", lambda: repr(sorted(extra)))


def staged(module_attrs, k, counter):
    """wrap callables: the stage whose index equals k raises before it runs"""
    out = {}
    for idx, (name, real) in enumerate(module_attrs):
        def make(idx, real):
            def wrapper(*a, **kw):
                counter.append(idx)
                if idx == k:
                    raise Injected("fault injected before stage %d" % idx)
                return real(*a, **kw)
            return wrapper
        out[name] = make(idx, real)
    return out


GP_STAGES = ["load_ff_library", "split_seq_string", "complement_dsDNA", "MapToMolecule", "ApplyLinks", "ApplyModifications",
             "find_missing_edges", "citation_formatter", "write_molecule_itp"]


@condition("C20.gen_params",
           anchors=["polyply.src.gen_itp:gen_params"],
           rejects=(), selector_only=True, must_cover=["failed", "succeeded", "backup made", "dsdna", "output name without .itp suffix", "later flush after a failure"],
           stubs=["each stage function of gen_params is wrapped; the wrapper of stage k raises before the stage runs", "apply_links.tqdm, gen_dna.tqdm -> silent"],
           outside=["process kill / power loss", "a later call in the same process flushing the temporary file a failed call left registered in vermouth's singleton writer (observed, not claimed)"],
           cfg={"path_timeout_s": 120},
           bounds={"quick": dict(backups=[0, 1]), "thorough": dict(backups=[0, 1, 2])},
           budget={"quick": 240, "thorough": 900})
def gen_params_cond(sx, B):
    """Real gen_params on generated input files in a per-path temp dir with a fault injected at a solver-chosen stage boundary
    (loading, sequence, dsDNA, mapping, links, modifications, missing-edge scan, citation formatting, serialisation; or none) and a
    solver-chosen pre-state (output file present, number of existing backups)."""
    k = sx.sel("fault_before_stage", [None] + list(range(len(GP_STAGES))))
    present = sx.sel("output_present", [False, True])
    nb = sx.sel("existing_backups", B["backups"]) if present else 0
    dsdna = sx.sel("input", ["-seq", "sequence file with -dsdna"]) != "-seq"
    if dsdna:
        sx.cover("dsdna")
    # the output goes to the path that was asked for, whatever its name looks like
    oname = sx.sel("output_name", ["out.itp", "PEO_2.5kDa", "topol.top"])
    if oname != "out.itp":
        sx.cover("output name without .itp suffix")
    d = tempfile.mkdtemp(prefix="pverif_", dir=os.environ.get("TMPDIR"))
    DeferredFileWriter().open_files.clear()
    try:
        (Path(d) / "in.ff").write_text(FF + '[ citations ]\nrefA\n')
        (Path(d) / "in.bib").write_text("@article{refA,\n author = {Doe, J},\n title = {t},\n journal = {J},\n year = {2020},\n doi = {10.1/x}\n}\n")
        prestate(d, oname, present, nb)
        before = snapshot_dir(d)
        reached = []
        real = [("load_ff_library", gi.load_ff_library), ("split_seq_string", gi.split_seq_string), ("complement_dsDNA", gi.complement_dsDNA),
                ("MapToMolecule", gi.MapToMolecule), ("ApplyLinks", gi.ApplyLinks), ("ApplyModifications", gi.ApplyModifications),
                ("find_missing_edges", gi.find_missing_edges), ("citation_formatter", gi.citation_formatter)]
        wrappers = staged(real, k, reached)
        real_write = gi.vermouth.gmx.itp.write_molecule_itp

        def write_itp(*a, **kw):
            reached.append(8)
            if k == 8:
                raise Injected("fault injected before serialisation")
            return real_write(*a, **kw)
        failed = False
        handles = []
        real_open = gi.deferred_open

        def capturing_open(*a, **kw):
            h = real_open(*a, **kw)
            handles.append(h)
            return h

        class WriterProxy:
            def write(self_inner):
                # the staged file is moved into place here: it has to be complete, i.e. closed (a still open, buffered
                # handle loses its tail when the move crosses file systems)
                sx.claim(all(h.closed for h in handles) and len(handles) >= 1, "the staged file is complete (closed) when it is moved into place",
                         lambda: "%d staged handles, open: %d" % (len(handles), sum(1 for h in handles if not h.closed)))
                return DeferredFileWriter().write()
        wrappers["deferred_open"] = capturing_open
        wrappers["DeferredFileWriter"] = WriterProxy
        with patched(gi, **wrappers), patched(gi.vermouth.gmx.itp, write_molecule_itp=write_itp), patched(al, tqdm=_Tqdm), patched(gen_dna, tqdm=_Tqdm):
            try:
                if dsdna:
                    (Path(d) / "s.ig").write_text("; DNA sequence\n; c\ntitle\nACG1\n")
                    gi.gen_params(name="mol", outpath=Path(d) / oname, lib=["martini2"], seq_file=Path(d) / "s.ig", dsdna=True)
                else:
                    gi.gen_params(name="mol", outpath=Path(d) / oname, inpath=[Path(d) / "in.ff", Path(d) / "in.bib"], seq=["A:2", "B:1"], dsdna=False)
            except Injected:
                failed = True
        before = snapshot_dir(d) if not failed and dsdna and False else before
        never_reached = {2} if not dsdna else {1}      # -seq never completes a strand; a sequence file is not split
        sx.claim(failed == (k is not None and k not in never_reached), "the injected fault is the only failure", lambda: "stage %r reached %r" % (k, reached))
        if dsdna:
            before["s.ig"] = b"; DNA sequence\n; c\ntitle\nACG1\n"
        sx.cover("failed" if failed else "succeeded")
        if not failed and present:
            sx.cover("backup made")
        if failed and k <= 6:
            # as in C20.gen_coords: a later run's flush of the process-wide writer finds nothing staged by a run that failed early
            DeferredFileWriter().write()
            sx.cover("later flush after a failure")
            late = snapshot_dir(d)
            if dsdna:
                late.setdefault("s.ig", before.get("s.ig"))
            sx.claim({k2: v for k2, v in late.items() if k2 != "s.ig"} == {k2: v for k2, v in before.items() if k2 != "s.ig"},
                     "the flush of a later run in the same process does not bring output of the failed run into place",
                     lambda: "created %r" % sorted(set(late) - set(before)))
        check_outcome(sx, d, oname, before, failed, present, nb,
                      lambda text: "[ moleculetype ]" in text and text.count("\n") > 10 and "[ bonds ]" in text)
    finally:
        DeferredFileWriter().open_files.clear()
        shutil.rmtree(d, ignore_errors=True)


TOP = top_text({"PM": [("A", ["a1"]), ("A", ["a1"]), ("A", ["a1"])]}, [("PM", 2)], atomtypes=("A",))
GC_STAGES = ["read topology", "connectivity gate", "build file", "start nodes", "templates", "ligands", "cycles", "system building",
             "backmapping", "serialisation (before)", "serialisation (after, before the deferred flush)"]


@condition("C20.gen_coords",
           anchors=["polyply.src.gen_coords:gen_coords"],
           rejects=(), selector_only=True, must_cover=["failed", "succeeded", "backup made", "with options", "later flush after a failure"],
           stubs=["each stage of gen_coords is wrapped; the wrapper of stage k raises before (or, for serialisation, also after) the stage runs",
                  "build_system.tqdm -> silent"],
           outside=["process kill / power loss", "failures inside the final deferred flush itself",
                    "a later flush after a failure between serialisation and the flush (stage 10): the staged record stays registered in vermouth's singleton writer (observed, not claimed)"],
           cfg={"path_timeout_s": 300},
           bounds={"quick": dict(backups=[0, 1]), "thorough": dict(backups=[0, 1, 2])},
           budget={"quick": 280, "thorough": 1200})
def gen_coords_cond(sx, B):
    """Real gen_coords on a small generated topology in a per-path temp dir with a fault injected at a solver-chosen stage
    boundary (reading, gate, build file, start nodes, templates, ligands, cycles, system building, backmapping, before and after
    serialisation; or none) and a solver-chosen pre-state."""
    k = sx.sel("fault_at_stage", [None] + list(range(len(GC_STAGES))))
    present = sx.sel("output_present", [False, True])
    nb = sx.sel("existing_backups", B["backups"]) if present else 0
    variant = sx.sel("options", ["plain", "input structure, build file and cycle"])
    d = tempfile.mkdtemp(prefix="pverif_", dir=os.environ.get("TMPDIR"))
    DeferredFileWriter().open_files.clear()
    np.random.seed(int(os.environ.get("VERIF_SEED", "0") or 0) + 1)
    try:
        (Path(d) / "sys.top").write_text(TOP)
        extra = {}
        if variant != "plain":
            (Path(d) / "in.gro").write_text("given\n    1\n    1A       a1    1   1.000   1.000   1.000\n   6.00000   6.00000   6.00000\n")
            (Path(d) / "b.bld").write_text("[ molecule ]\nPM 0 2\n[ sphere ]\nA 1 4 in 3.0 3.0 3.0 4.0\n")
            extra = dict(coordpath=Path(d) / "in.gro", build=[Path(d) / "b.bld"])
            sx.cover("with options")
        prestate(d, "out.gro", present, nb)
        before = snapshot_dir(d)
        reached = []

        class TopProxy:
            @staticmethod
            def from_gmx_topfile(name, path):
                reached.append(0)
                if k == 0:
                    raise Injected("read")
                return gc_Topology.from_gmx_topfile(name=name, path=path)
        gc_Topology = gc.Topology
        real = [("_check_molecules", gc._check_molecules), ("load_build_files", gc.load_build_files),
                ("find_starting_node_from_spec", gc.find_starting_node_from_spec), ("GenerateTemplates", gc.GenerateTemplates),
                ("AnnotateLigands", gc.AnnotateLigands), ("_initialize_cylces", gc._initialize_cylces), ("BuildSystem", gc.BuildSystem),
                ("Backmap", gc.Backmap)]
        wrappers = {}
        for idx, (name, fn) in enumerate(real, start=1):
            def make(idx, fn):
                def w(*a, **kw):
                    reached.append(idx)
                    if idx == k:
                        raise Injected("stage %d" % idx)
                    return fn(*a, **kw)
                return w
            wrappers[name] = make(idx, fn)
        real_write = gc.vermouth.gmx.gro.write_gro

        def write_gro(*a, **kw):
            reached.append(9)
            if k == 9:
                raise Injected("before serialisation")
            r = real_write(*a, **kw)
            if k == 10:
                raise Injected("after serialisation, before the flush")
            return r
        failed = False
        with patched(gc, Topology=TopProxy, **wrappers), patched(gc.vermouth.gmx.gro, write_gro=write_gro), patched(bs, tqdm=_Tqdm):
            try:
                gc.gen_coords(toppath=Path(d) / "sys.top", outpath=Path(d) / "out.gro", name="sys", box=np.array([6.0, 6.0, 6.0]), maxiter=50, **extra)
            except Injected:
                failed = True
        sx.claim(failed == (k is not None), "the injected fault is the only failure", lambda: "stage %r reached %r" % (k, reached))
        sx.cover("failed" if failed else "succeeded")
        if not failed and present:
            sx.cover("backup made")
        if failed and k <= 9:
            # history inside one process: the next successful polyply run flushes vermouth's process-wide deferred writer; a run
            # that failed before serialisation began must not have staged anything that this flush brings into place
            DeferredFileWriter().write()
            sx.cover("later flush after a failure")
            late = snapshot_dir(d)
            sx.claim(late == before, "the flush of a later run in the same process does not bring output of the failed run into place",
                     lambda: "created %r, changed %r" % (sorted(set(late) - set(before)), sorted(k2 for k2 in before if k2 in late and late[k2] != before[k2])))
        check_outcome(sx, d, "out.gro", before, failed, present, nb,
                      lambda text: len(text.split("\n")) >= 6 + 3 and text.split("\n")[1].strip() == "6")
    finally:
        DeferredFileWriter().open_files.clear()
        shutil.rmtree(d, ignore_errors=True)


GS_STAGES = ["MacroString", "generate_seq_graph", "_apply_termini_modifications", "_tag_nodes", "node_link_data"]


@condition("C20.gen_seq",
           anchors=["polyply.src.gen_seq:gen_seq"],
           rejects=(), selector_only=True, must_cover=["failed", "succeeded"],
           stubs=["each stage of gen_seq is wrapped; the wrapper of stage k raises before the stage runs"],
           outside=["failures during json.dump itself (the statement says before writing)"],
           bounds={"quick": dict(), "thorough": dict()})
def gen_seq_cond(sx, B):
    """Real gen_seq with a fault injected at a solver-chosen stage boundary (macro parsing, graph generation, termini, labels,
    conversion to JSON data; or none): a failure before writing creates, truncates or modifies no file."""
    k = sx.sel("fault_before_stage", [None] + list(range(len(GS_STAGES))))
    present = sx.sel("output_present", [False, True])
    d = tempfile.mkdtemp(prefix="pverif_", dir=os.environ.get("TMPDIR"))
    try:
        prestate(d, "seq.json", present, 0)
        before = snapshot_dir(d)
        reached = []
        real = [("MacroString", gs.MacroString), ("generate_seq_graph", gs.generate_seq_graph),
                ("_apply_termini_modifications", gs._apply_termini_modifications), ("_tag_nodes", gs._tag_nodes)]
        wrappers = staged(real, k, reached)
        real_nld = gs.json_graph.node_link_data

        def nld(*a, **kw):
            reached.append(4)
            if k == 4:
                raise Injected("json data")
            return real_nld(*a, **kw)
        failed = False
        with patched(gs, **wrappers), patched(gs.json_graph, node_link_data=nld):
            try:
                gs.gen_seq("x", Path(d) / "seq.json", ["A", "B"], macro_strings=["A:3:1:PEO-1.0", "B:2:2:PS-1.0"], connects=["0:1:2-0"],
                           modifications=["0:END"], tags=["1:chiral:R-1.0"])
            except Injected:
                failed = True
        sx.claim(failed == (k is not None), "the injected fault is the only failure")
        sx.cover("failed" if failed else "succeeded")
        after = snapshot_dir(d)
        if failed:
            sx.claim(after == before, "a failure before writing leaves the directory exactly as it was", lambda: repr(sorted(after)))
        else:
            import json
            sx.claim("seq.json" in after and len(json.loads(after["seq.json"].decode())["nodes"]) == 6, "after success the complete file is in place")
    finally:
        shutil.rmtree(d, ignore_errors=True)
