"""C08 - A topology is read as its preprocessed, flattened equivalent."""
import os
import shutil
import tempfile
from pathlib import Path
import networkx as nx
import vermouth.forcefield
from pverif.harness import condition, patched
from pverif import symx
from polyply.src.topology import Topology

FILES = {
    "ff.itp": """[ defaults ]
1 1 no 1.0 1.0
[ atomtypes ]
TA 36.0 0.0 A 0.47 2.0
TB 72.0 0.0 A 0.43 1.5
[ bondtypes ]
TA TB 1 0.35 1000
""",
    "a.itp": """[ moleculetype ]
MA 1
[ atoms ]
1 TA 1 RA a1 1 0.0
2 TB 1 RA a2 1 0.0
[ bonds ]
1 2 1
""",
    "sub/b.itp": """; b includes c which lives next to it
#include "c.itp"
[ moleculetype ]
MB 1
[ atoms ]
1 TB 1 RB b1 1 0.0
""",
    "sub/c.itp": """#define FROM_C
[ angletypes ]
TA TB TA 2 120 45
""",
    "extra.itp": """[ bondtypes ]
TB TB 1 0.50 500
""",
    # a second directory whose file includes "c.itp" as well - the same include string names a different file there
    "sub2/b2.itp": """#include "c.itp"
[ moleculetype ]
MD 1
[ atoms ]
1 TA 1 RD d1 1 0.0
""",
    "sub2/c.itp": """#define FROM_C2
[ angletypes ]
TB TA TB 2 99 11
""",
}
INLINE_MC = """[ moleculetype ]
MC 1
[ atoms ]
1 TA 1 RC c1 1 0.0
2 TA 1 RC c2 1 0.0
[ bonds ]
1 2 1 0.33 900
"""
SLOTS = {
    "define X": "#define X",
    "ifdef X": "#ifdef X", "ifndef X": "#ifndef X", "ifdef Y": "#ifdef Y", "else": "#else", "endif": "#endif",
    "include ff": '#include "ff.itp"', "include a": '#include "a.itp"', "include sub/b": '#include  "sub/b.itp"',
    "include extra": '#include "extra.itp"', "include sub2/b2": '#include "sub2/b2.itp"', "error": "#error something is wrong",
    "comment": "; a comment line", "blank": "", "star comment": "* star",
    "inline MC": INLINE_MC.strip("\n"),
    "guarded bondtype": "[ bondtypes ]\nTA TA 1 0.44 440",
    # a complete conditional with both alternatives of a type-table entry
    "alternative bondtypes": "#ifdef X\n[ bondtypes ]\nTB TA 1 0.46 460\n#else\n[ bondtypes ]\nTB TA 1 0.57 570\n#endif",
}


DECOY = """[ bondtypes ]
TC TC 1 0.99 999
[ moleculetype ]
MA 1
[ atoms ]
1 TA 1 RX x1 1 0.0
"""


class Malformed(Exception):
    pass


class ErrorDirective(Exception):
    pass


def flatten(text, directory, files, defined=None, depth=0):
    """independent preprocessor (Appendix B): textual inlining of includes relative to the including file; a conditional that
    contains an include or #error is resolved against the macros defined outside conditionals so far and its directive lines
    are dropped; other conditionals are copied verbatim. Returns list of lines."""
    defined = set() if defined is None else defined
    lines = text.split("\n")
    out = []
    i = 0
    open_cond = None       # (tag, active, start index in out, has_directive, verbatim lines)
    while i < len(lines):
        raw = lines[i]
        line = raw.strip()
        i += 1
        if line.startswith("#ifdef") or line.startswith("#ifndef"):
            if open_cond is not None:
                raise Malformed("nested conditional")
            kind, tag = line.split()
            active = (tag in defined) if kind == "#ifdef" else (tag not in defined)
            open_cond = dict(active=active, body=[], directive=False, open_line=raw, lines=[raw])
            continue
        if line.startswith("#else"):
            if open_cond is None:
                raise Malformed("else without if")
            open_cond["active"] = not open_cond["active"]
            open_cond["body"].append(("else", raw))
            open_cond["lines"].append(raw)
            continue
        if line == "#endif":
            if open_cond is None:
                raise Malformed("endif without if")
            open_cond["lines"].append(raw)
            if any(y.strip().replace(" ", "").startswith("[moleculetype") for y in open_cond["lines"]):
                # a conditional around a whole molecule type is resolved like one around an #include: the lines of the branch
                # that holds are kept (unguarded), the others dropped (the reader of the pinned tree does not do this: F20)
                out.extend(x for kind, x in open_cond["body"] if kind in ("kept", "included"))
            elif open_cond["directive"]:
                # included content of active includes is inlined (unguarded, as the condition holds); the data lines of the
                # conditional stay guarded by it
                out.extend(x for kind, x in open_cond["body"] if kind == "included")
                data = [x for x in open_cond["lines"]]
                if any(not y.strip().startswith("#") and y.strip() for y in data):
                    out.extend(data)
            else:
                out.extend(open_cond["lines"])
            open_cond = None
            continue
        active = True if open_cond is None else open_cond["active"]
        if line.startswith("#include"):
            if open_cond is not None:
                open_cond["directive"] = True
            if active:
                rel = line.split()[1].strip('"')
                path = os.path.normpath(os.path.join(directory, rel))
                if path not in files:
                    raise Malformed("missing include %s" % path)
                sub = flatten(files[path], os.path.dirname(path), files, defined, depth + 1)
                if open_cond is not None:
                    open_cond["body"].extend(("included", x) for x in sub)
                else:
                    out.extend(sub)
            continue
        if line.startswith("#error"):
            if open_cond is not None:
                open_cond["directive"] = True
            if active:
                raise ErrorDirective(line)
            continue
        if line.startswith("#define"):
            if open_cond is not None:
                raise Malformed("define inside conditional (outside the claim)")
            defined.add(line.split()[1])
            out.append(raw)
            continue
        if open_cond is not None:
            open_cond["lines"].append(raw)
            # data lines of a conditional that turns out to hold a directive are kept only if active
            if active:
                open_cond["body"].append(("kept", raw))
        else:
            out.append(raw)
    if open_cond is not None:
        raise Malformed("no endif")
    return out


def snapshot(top):
    blocks = {}
    for name, b in top.force_field.blocks.items():
        blocks[name] = (sorted((k, tuple(sorted((a, str(v)) for a, v in d.items()))) for k, d in b.nodes(data=True)),
                        {t: sorted((tuple(i.atoms), tuple(i.parameters), tuple(sorted(i.meta.items()))) for i in l) for t, l in b.interactions.items() if l},
                        b.nrexcl)
    types = {t: {k: [(tuple(p), tuple(sorted(m.items())) if m else None) for p, m in v] for k, v in d.items()} for t, d in top.types.items() if d}
    mols = [m.mol_name for m in top.molecules]
    return dict(defaults=dict(top.defaults), atom_types={k: dict(v) for k, v in top.atom_types.items()}, types=types,
                defines={k: v for k, v in top.defines.items()}, blocks=blocks, molecules=mols,
                mol_idx_by_name={k: list(v) for k, v in top.mol_idx_by_name.items() if v})


def write_tree(d, files):
    for rel, text in files.items():
        p = Path(d) / rel
        p.parent.mkdir(parents=True, exist_ok=True)
        p.write_text(text)


Q_ALPHA = ["alternative bondtypes", "define X", "ifdef X", "ifndef X", "ifdef Y", "else", "endif", "include a", "include sub/b", "include sub2/b2", "include extra", "error",
           "comment", "star comment", "inline MC", "guarded bondtype"]
T_ALPHA = sorted(SLOTS)


@condition("C08.flatten",
           anchors=["polyply.src.top_parser:TOPDirector.parse_top_pragma", "polyply.src.top_parser:TOPDirector.parse_include",
                    "polyply.src.top_parser:TOPDirector.parse_define", "polyply.src.top_parser:TOPDirector.parse_error",
                    "polyply.src.top_parser:TOPDirector.finalize", "polyply.src.top_parser:TOPDirector._molecules",
                    "polyply.src.topology:Topology.from_gmx_topfile"],
           rejects=(), selector_only=True,
           must_cover=["read", "error directive", "malformed rejected", "conditional include taken", "conditional include skipped", "nested include", "repeated name",
                       "same include string in two directories", "directives spelled with extra whitespace", "both alternatives of a conditional", "read through a symbolic link"],
           outside=["#define inside a conditional, nested conditionals (rejected by the reader by design)", "macros with values in conditions",
                    "data lines that continue a section across an #include", "the GROMACS include search path"],
           cfg={"path_timeout_s": 60},
           bounds={"quick": dict(k=3, alpha=Q_ALPHA, mollists=[[("MA", 1)], [("MA", 2), ("MB", 1), ("MA", 1)], [("MC", 1), ("MA", 0), ("MB", 2)]]),
                   "thorough": dict(k=4, alpha=Q_ALPHA, mollists=[[("MA", 2), ("MB", 1), ("MA", 1)], [("MC", 1), ("MA", 0), ("MB", 2)]])},
           budget={"quick": 280, "thorough": 2400})
def flatten_cond(sx, B):
    """Real Topology.from_gmx_topfile on a .top assembled from k solver-chosen lines (defines, conditionals, includes of a nested
    include tree, #error, comments, an inline moleculetype, a guarded type-table entry) followed by a solver-chosen [ molecules ] list,
    read from real files in a per-path temp dir. Oracle (metamorphic): an independent preprocessor flattens the tree into one file and
    the same reader reads it; defaults, atom types, type tables, defines, blocks, the expanded molecule list and mol_idx_by_name must
    be equal, the molecule instances must be independent objects, #error must abort exactly when its condition is active, and
    malformed conditional nesting must be rejected."""
    k = B["k"]
    slots = [sx.sel("slot%d" % i, B["alpha"]) for i in range(k)]
    mollist = sx.sel("molecules", B["mollists"])
    # directives may be written with any amount of blanks / tabs after the keyword and trailing blanks
    spelling = sx.sel("directive_spelling", ["single blank", "blanks and tabs"]) if any(SLOTS[s].startswith("#") for s in slots) else "single blank"

    def spell(line):
        if spelling == "single blank" or not line.startswith("#") or line.startswith("#error"):
            return line
        tok = line.split(None, 1)
        return tok[0] + (("  \t" + tok[1]) if len(tok) > 1 else "") + "  "
    if spelling != "single blank":
        sx.cover("directives spelled with extra whitespace")
    body = "\n".join(spell(SLOTS[s]) for s in slots)
    # everything the [ molecules ] list needs is included unconditionally first so that most inputs are readable
    head = '#include "ff.itp"\n'
    tail = "\n[ system ]\ntest system\n[ molecules ]\n" + "\n".join("%s %d" % (n, c) for n, c in mollist) + "\n"
    needed = set(n for n, _ in mollist)
    have = set()
    if "include a" in slots:
        have.add("MA")
    if "include sub/b" in slots:
        have.add("MB")
    if "inline MC" in slots:
        have.add("MC")
    pre = ""
    for n in sorted(needed - have):
        pre += {"MA": '#include "a.itp"\n', "MB": '#include "sub/b.itp"\n', "MC": INLINE_MC}[n]
    text = head + body + "\n" + pre + tail
    # derived fact for the known-finding region: an open conditional encloses the header of the inline moleculetype
    open_c, spans = False, 0
    for sl in slots:
        if sl in ("ifdef X", "ifndef X", "ifdef Y"):
            open_c = True
        elif sl == "endif":
            open_c = False
        elif sl == "inline MC" and open_c:
            spans = 1
    sx.tag("conditional_spans_inline_moleculetype", spans)
    d = tempfile.mkdtemp(prefix="pverif_", dir=os.environ.get("TMPDIR"))
    try:
        write_tree(d, FILES)
        via_link = sx.sel("top_file_reached_through", ["its own path", "a symbolic link in the include directory"]) != "its own path"
        if via_link:
            # the file lives elsewhere (next to other files with the names used in its #include lines); it is read through a link
            # in the directory of the include tree: includes are resolved relative to the file as it is named
            os.makedirs(os.path.join(d, "store", "sub"))
            for rel in ("ff.itp", "a.itp", "extra.itp", "sub/b.itp"):
                Path(d, "store", rel).write_text(DECOY)
            (Path(d) / "store" / "system.top").write_text(text)
            os.symlink(os.path.join(d, "store", "system.top"), os.path.join(d, "system.top"))
            sx.cover("read through a symbolic link")
        else:
            (Path(d) / "system.top").write_text(text)
        absfiles = {os.path.normpath(os.path.join(d, rel)): t for rel, t in FILES.items()}
        expect_exc = None
        flat = None
        try:
            flat = flatten(text, d, absfiles)
        except ErrorDirective:
            expect_exc = NotImplementedError
        except Malformed as m:
            if "outside the claim" in str(m) or "nested" in str(m):
                raise symx.PathAbort()
            expect_exc = IOError
        real, real_exc = None, None
        # the process runs in a directory that holds other files with the names used in the #include lines: includes are
        # resolved relative to the including file, never relative to the working directory
        rundir = os.path.join(d, "rundir")
        os.makedirs(os.path.join(rundir, "sub"))
        for rel in ("ff.itp", "a.itp", "extra.itp", "sub/b.itp"):
            Path(rundir, rel).write_text(DECOY)
        before_cwd = os.getcwd()
        os.chdir(rundir)
        try:
            real = Topology.from_gmx_topfile(os.path.join(d, "system.top"), "sys")
        except (IOError, NotImplementedError, KeyError, ValueError) as e:
            real_exc = e
        finally:
            os.chdir(before_cwd)
        what = lambda: "top file:\n%s" % text
        if expect_exc is not None:
            sx.cover("error directive" if expect_exc is NotImplementedError else "malformed rejected")
            # a malformed file may be rejected with any diagnostic (e.g. by an active #error it also contains)
            sx.claim(real_exc is not None and (isinstance(real_exc, expect_exc) or expect_exc is IOError),
                     "#error aborts reading exactly when its condition is active; malformed nesting is rejected",
                     lambda: what() + "\nexpected %s, got %r" % (expect_exc.__name__, real_exc))
            return
        # the flattened file, read by the same reader
        (Path(d) / "flat.top").write_text("\n".join(flat) + "\n")
        ref, ref_exc = None, None
        try:
            ref = Topology.from_gmx_topfile(os.path.join(d, "flat.top"), "sys")
        except (IOError, NotImplementedError, KeyError, ValueError) as e:
            ref_exc = e
    finally:
        shutil.rmtree(d, ignore_errors=True)
    if ref_exc is not None or real_exc is not None:
        sx.claim(ref_exc is not None and real_exc is not None and type(ref_exc) is type(real_exc),
                 "the file and its flattened equivalent are accepted or rejected alike",
                 lambda: what() + "\noriginal: %r\nflattened: %r\n%s" % (real_exc, ref_exc, "\n".join(flat)))
        return
    sx.cover("read")
    if "alternative bondtypes" in slots and not any(s_ in ("ifdef X", "ifndef X", "ifdef Y") for s_ in slots):
        # each alternative keeps the condition of its own branch (independent of the include-tree/flat comparison)
        got_alt = sorted((tuple(p), (m or {}).get("condition"), (m or {}).get("tag")) for key, lst in real.types["bonds"].items()
                         if tuple(key) in (("TB", "TA"), ("TA", "TB")) for p, m in lst if tuple(p)[1] in ("0.46", "0.57"))
        n_alt = slots.count("alternative bondtypes")
        want_alt = sorted([(("1", "0.46", "460"), "ifdef", "X"), (("1", "0.57", "570"), "ifndef", "X")] * n_alt)
        sx.cover("both alternatives of a conditional")
        sx.claim(got_alt == want_alt, "each alternative of an #ifdef/#else pair of type-table entries carries the condition of its own branch",
                 lambda: what() + "\n%r" % (got_alt,))
    # which conditional includes were taken / skipped (by the oracle's own evaluation)
    defined_now, cond = set(), None
    for sl in slots:
        if sl == "define X":
            defined_now.add("X")
        elif sl in ("ifdef X", "ifdef Y"):
            cond = sl.split()[1] in defined_now
        elif sl == "ifndef X":
            cond = "X" not in defined_now
        elif sl == "else" and cond is not None:
            cond = not cond
        elif sl == "endif":
            cond = None
        elif sl.startswith("include") and cond is not None:
            sx.cover("conditional include taken" if cond else "conditional include skipped")
    if "include sub/b" in slots or "MB" in needed:
        sx.cover("nested include")
        if "include sub2/b2" in slots:
            sx.cover("same include string in two directories")
    if len(set(n for n, _ in mollist)) < len(mollist):
        sx.cover("repeated name")
    a, b = snapshot(real), snapshot(ref)
    for key in ("defaults", "atom_types", "types", "defines", "blocks", "molecules", "mol_idx_by_name"):
        sx.claim(a[key] == b[key], "%s equal to those of the flattened file" % key,
                 lambda: what() + "\n%s: %r\nflattened: %r\n%s" % (key, a[key], b[key], "\n".join(flat)))
    want = [n for n, c in mollist for _ in range(c)]
    sx.claim(a["molecules"] == want, "molecule list is the [ molecules ] section expanded in order", lambda: "%r expected %r" % (a["molecules"], want))
    idx = {}
    for i, n in enumerate(want):
        idx.setdefault(n, []).append(i)
    sx.claim(a["mol_idx_by_name"] == idx, "mol_idx_by_name indexes the expanded list", lambda: "%r expected %r" % (a["mol_idx_by_name"], idx))
    mols = real.molecules
    sx.claim(len(set(id(m) for m in mols)) == len(mols) and len(set(id(m.molecule) for m in mols)) == len(mols),
             "molecule instances are independent objects")
    if len(mols) >= 2 and mols[0].mol_name == mols[-1].mol_name:
        node = next(iter(mols[0].molecule.nodes))
        mols[0].molecule.nodes[node]["pverif_probe"] = 1
        sx.claim("pverif_probe" not in mols[-1].molecule.nodes[node], "instances of one molecule type do not share atom attributes")
        n0 = next(iter(mols[0].nodes))
        mols[0].nodes[n0]["pverif_probe"] = 1
        sx.claim("pverif_probe" not in mols[-1].nodes[n0], "instances of one molecule type do not share residue attributes")
