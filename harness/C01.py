"""C01 - Every residue is a verbatim, re-indexed copy of its force-field block."""
import itertools
import numpy as np
import networkx as nx
import z3
from pverif.harness import condition, patched
from pverif import symx
from pverif.symx import SymInt, SymReal, sym_and
from harness import ffgen
from harness.ffgen import simple_block, multi_res_block, block_text_ff, block_text_itp, parse_ff, GRAPHS, residue_graph
import polyply.src.map_to_molecule as m2m
import polyply.src.apply_links as al
import polyply.src.apply_modifications as am
from polyply.src.map_to_molecule import MapToMolecule
from polyply.src.apply_links import ApplyLinks
from polyply.src.apply_modifications import ApplyModifications

LINK_AB = """[ link ]
resname "A|B|MA|MB"
[ bonds ]
{last} +{first} 1 0.41 4100
"""


class _Tqdm:
    def __init__(self, it=None, *a, **k):
        self.it = it

    def __iter__(self):
        return iter(self.it)


def symbolise(sx, ff, specs):
    """replace the numeric attributes of the parsed blocks by symbolic values; returns {block: [(cg, charge, mass)]}"""
    sym = {}
    for name, spec in specs.items():
        block = ff.blocks[name]
        vals = []
        prev = None
        for j, node in enumerate(block.nodes):
            cg = sx.int("cg_%s_%d" % (name, j), 1, 50)
            if prev is not None:
                sx.assume(cg >= prev, "charge groups are non-decreasing inside a block")
            prev = cg
            q = sx.real("q_%s_%d" % (name, j))
            m = sx.real("m_%s_%d" % (name, j), 0, None)
            block.nodes[node]["charge_group"] = cg
            block.nodes[node]["charge"] = q
            block.nodes[node]["mass"] = m
            vals.append((cg, q, m))
        sym[name] = vals
    return sym


def inter_key(inter):
    return (tuple(inter.atoms), tuple(str(p) for p in inter.parameters),
            tuple(sorted((k, str(v)) for k, v in inter.meta.items() if k != "version")))


def check_layout(sx, meta, specs, sym, node_block, ranks, start, stage, removed_ok=False, link_inters=None):
    """independent layout oracle. node_block: meta node -> (block name, index of the residue inside the block);
    ranks: meta nodes in residue-id order"""
    mol = meta.molecule
    expected = []            # (meta node, block name, atom index in block)
    placed_blocks = []       # (block name, first expected position)
    r = 0
    while r < len(ranks):
        bname, sub = node_block[ranks[r]]
        spec = specs[bname]
        nres = len(spec.residues())
        first = len(expected)
        placed_blocks.append((bname, first, [ranks[r + k] for k in range(nres)]))
        for j, a in enumerate(spec.atoms):
            res_index = [x[0] for x in spec.residues()].index(a[5])
            expected.append((ranks[r + res_index], bname, j))
        r += nres
    keys = sorted(mol.nodes)
    if not sx.claim(len(keys) == len(expected), "%s: number of atoms is the sum of the block sizes" % stage,
                    lambda: "%d atoms, expected %d" % (len(keys), len(expected))):
        return False
    rank_of = {n: i for i, n in enumerate(ranks)}
    last_cg = {}
    ok = True
    for pos, (key, (mnode, bname, j)) in enumerate(zip(keys, expected)):
        spec = specs[bname]
        a = spec.atoms[j]
        nd = mol.nodes[key]
        ok &= sx.claim(nd.get("atomname") == a[0] and nd.get("atype") == a[1] and nd.get("resname") == a[6],
                       "%s: atoms appear block by block in residue-id order with their names, types and residue names" % stage,
                       lambda: "atom %r: %r expected %r" % (key, {k: nd.get(k) for k in ("atomname", "atype", "resname")}, a[:2] + (a[6],)))
        if not ok:
            return False
        rk = rank_of[mnode]
        sx.claim(nd["resid"] == start + rk, "%s: atoms are numbered by the residue id of their residue" % stage,
                 lambda: "atom %r (%s of rank %d): resid %r" % (key, a[0], rk, nd["resid"]))
        cgs, q, m = sym[bname][j]
        # charge group: block value shifted by the charge group of the last atom before this block instance
        first = [p for (bn, p, _) in placed_blocks if p <= pos][-1]
        shift = 0 if first == 0 else mol.nodes[keys[first - 1]]["charge_group"]
        sx.claim(nd["charge_group"] == cgs + shift, "%s: charge groups are the block's shifted by the last charge group before the block" % stage,
                 lambda: "atom %r: %r" % (key, nd["charge_group"]))
        sx.claim(sym_and(nd["charge"] == q, nd["mass"] == m), "%s: charge and mass are the block's" % stage)
    # graph attribute of the residue nodes
    for mnode in ranks:
        want = sorted(k for k, e in zip(keys, expected) if e[0] == mnode)
        got = sorted(meta.nodes[mnode]["graph"].nodes) if "graph" in meta.nodes[mnode] else None
        sx.claim(got == want, "%s: the residue node holds exactly the atoms of its residue" % stage,
                 lambda: "residue node %r: %r expected %r" % (mnode, got, want))
    # block interactions once per instance with unchanged parameters
    want_inters = {}
    for bname, first, _ in placed_blocks:
        spec = specs[bname]
        for (t, at, params, meta_) in spec.inters:
            k = (t, tuple(keys[first + i] for i in at), tuple(params), tuple(sorted((a_, str(b_)) for a_, b_ in meta_.items())))
            want_inters[k] = want_inters.get(k, 0) + 1
    got_inters = {}
    for t, lst in mol.interactions.items():
        for inter in lst:
            k = (t,) + inter_key(inter)
            got_inters[k] = got_inters.get(k, 0) + 1
    for k, cnt in want_inters.items():
        sx.claim(got_inters.get(k, 0) == cnt, "%s: every block interaction appears once per instance with unchanged parameters" % stage,
                 lambda: "%r: %d times, expected %d; molecule has %r" % (k, got_inters.get(k, 0), cnt, sorted(x for x in got_inters if x[0] == k[0])))
    extra = {k: c for k, c in got_inters.items() if k not in want_inters and (link_inters is None or k not in link_inters)}
    sx.claim(not extra, "%s: no interaction that neither a block nor an applicable link defines" % stage, lambda: repr(extra))
    return True


@condition("C01.layout",
           anchors=["polyply.src.map_to_molecule:MapToMolecule.run_molecule", "polyply.src.map_to_molecule:MapToMolecule.add_blocks",
                    "polyply.src.map_to_molecule:MapToMolecule.match_nodes_to_blocks", "polyply.src.map_to_molecule:_correspondence_to_residue",
                    "polyply.src.apply_links:ApplyLinks.run_molecule", "polyply.src.apply_links:ApplyLinks._update_interactions_dict"],
           rejects=(), must_cover=["ff", "itp", "links applied", "permuted", "multi-term"],
           stubs=["apply_links.tqdm -> plain iteration"],
           assumes=["residue ids >= 1 (vermouth treats residue id 0 as missing)"],
           outside=["blocks with more atoms / residue graphs larger than the bound", ".rtp input", "numbers as rendered text (C11)"],
           bounds={"quick": dict(nmax=3, kA=[1, 4], kB=[1, 2]), "thorough": dict(nmax=4, kA=[1, 3, 4], kB=[1, 2])},
           budget={"quick": 280, "thorough": 1500})
def layout(sx, B):
    """Real read_ff / read_polyply, MetaMolecule, MapToMolecule and ApplyLinks on a generated force field (block sizes, input syntax,
    a two-term angle on the same atoms, with and without a connecting link) and a residue graph (size, shape, residue names, the order
    of residue ids relative to node keys, node keys) chosen by the solver; the residue-id offset, the charge groups, charges and masses
    are symbolic. Oracle: independent layout computation. Claims: atoms block by block in residue-id order, numbered by residue id,
    charge groups shifted, charges/masses identical terms, every block interaction once per instance, the residue nodes hold their
    atoms; the same after link application (plus exactly the link's interactions)."""
    syntax = sx.sel("syntax", ["ff", "itp"])
    kA = sx.sel("atoms_A", B["kA"])
    kB = sx.sel("atoms_B", B["kB"])
    multi = sx.sel("two_term_angle", [False, True]) if kA >= 3 else False
    with_link = sx.sel("link", [True, False])
    n = int(sx.int("n", 1, B["nmax"]))
    shape = sx.sel("shape", sorted(GRAPHS[n]))
    names = [sx.sel("res%d" % i, ["A", "B"]) for i in range(n)]
    perm = sx.sel("resid_order", list(itertools.permutations(range(n)))[:6])
    keyf = sx.sel("node_keys", ["0..n-1", "shifted", "strings"])
    start = sx.int("start", 1, 10 ** 6)
    specs = {"A": simple_block("A", kA, multi=multi), "B": simple_block("B", kB)}
    sx.cover(syntax)
    if multi:
        sx.cover("multi-term")
    texts = []
    for nm in ("A", "B"):
        texts.append((syntax, block_text_ff(specs[nm]) if syntax == "ff" else block_text_itp(specs[nm])))
    link_text = None
    if with_link:
        lastA, lastB = specs["A"].atoms[-1][0], specs["B"].atoms[-1][0]
        link_text = ""
        for la in (lastA, lastB):
            for fi in (specs["A"].atoms[0][0], specs["B"].atoms[0][0]):
                link_text += LINK_AB.format(last=la, first=fi)
        texts.append(("ff", link_text))
    ff = parse_ff(texts)
    sym = symbolise(sx, ff, specs)
    keys = {"0..n-1": list(range(n)), "shifted": [5 + 2 * i for i in range(n)], "strings": ["n%d" % i for i in range(n)]}[keyf]
    if perm != tuple(range(n)):
        sx.cover("permuted")
    resids = [start + perm[i] for i in range(n)]
    meta = residue_graph(n, GRAPHS[n][shape], names, resids, keys=keys, ff=ff)
    ranks = [keys[i] for i in sorted(range(n), key=lambda i: perm[i])]
    node_block = {keys[i]: (names[i], 0) for i in range(n)}
    MapToMolecule(ff).run_molecule(meta)
    if not check_layout(sx, meta, specs, sym, node_block, ranks, start, "after mapping"):
        return
    with patched(al, tqdm=_Tqdm):
        ApplyLinks().run_molecule(meta)
    # expected link interactions: a bond between last atom of u and first atom of v for every residue-graph edge (u, v)
    # with resid(v) = resid(u) + 1
    link_inters = set()
    if with_link:
        mol = meta.molecule
        atom_of = {}
        for mnode in ranks:
            g = sorted(meta.nodes[mnode]["graph"].nodes)
            atom_of[mnode] = (g[0], g[-1])
        rank_of = {k: i for i, k in enumerate(ranks)}
        for a, b in GRAPHS[n][shape]:
            u, v = keys[a], keys[b]
            if rank_of[v] == rank_of[u] + 1:
                pass
            elif rank_of[u] == rank_of[v] + 1:
                u, v = v, u
            else:
                continue
            link_inters.add(("bonds", (atom_of[u][1], atom_of[v][0]), ("1", "0.41", "4100"), ()))
        sx.cover("links applied")
    if check_layout(sx, meta, specs, sym, node_block, ranks, start, "after links", link_inters=link_inters):
        got = set()
        for inter in meta.molecule.interactions.get("bonds", []):
            k = ("bonds",) + inter_key(inter)
            if k[2] == ("1", "0.41", "4100"):
                got.add(k)
        sx.claim(got == link_inters, "after links: the link bond joins exactly the consecutive connected residues",
                 lambda: "%r expected %r" % (sorted(got), sorted(link_inters)))


SCEN = {"M": ["MA", "MB"], "A-M": ["A", "MA", "MB"], "M-A": ["MA", "MB", "A"], "M-M": ["MA", "MB", "MA", "MB"],
        "A-M-M": ["A", "MA", "MB", "MA", "MB"], "M-A-M": ["MA", "MB", "A", "MA", "MB"]}
KEYSETS = {"0..n-1": lambda n: list(range(n)), "descending": lambda n: [3 * (n - i) + 1 for i in range(n)],
           "scrambled": lambda n: [(7 * i + 3) % 11 for i in range(n)], "strings": lambda n: ["k%d" % ((5 * i + 2) % 7) for i in range(n)]}


@condition("C01.multi_residue",
           anchors=["polyply.src.map_to_molecule:MapToMolecule.match_nodes_to_blocks", "polyply.src.map_to_molecule:MapToMolecule.add_blocks",
                    "polyply.src.map_to_molecule:_correspondence_to_residue"],
           rejects=(), must_cover=["doubled fragment", "mixed"],
           assumes=["residue ids >= 1"],
           outside=["multi-residue blocks of more than two residues", "branched arrangements of fragments"],
           bounds={"quick": dict(scen=["M", "A-M", "M-A", "M-M", "M-A-M"], keys=["0..n-1", "descending", "strings"]),
                   "thorough": dict(scen=sorted(SCEN), keys=sorted(KEYSETS))},
           budget={"quick": 200, "thorough": 900})
def multi_residue(sx, B):
    """As C01.layout for residue graphs that contain residues of a two-residue block (label from_itp), alone, next to single-residue
    blocks and doubled (two consecutive copies), under several node-key labellings and a symbolic residue-id offset."""
    scen = sx.sel("scenario", B["scen"])
    keyf = sx.sel("node_keys", B["keys"])
    insertion = sx.sel("insertion", ["ascending", "descending"])
    start = sx.int("start", 1, 10 ** 6)
    names = SCEN[scen]
    n = len(names)
    first = sx.sel("block_numbered_from", [1, 3])
    specs = {"A": simple_block("A", 2), "MUL": multi_res_block("MUL", first_resid=first)}
    ff = parse_ff([("itp", block_text_itp(specs["MUL"])), ("ff", block_text_ff(specs["A"]))])
    sym = symbolise(sx, ff, specs)
    keys = KEYSETS[keyf](n)
    resids = [start + i for i in range(n)]
    from_itp = {i: ("MUL" if names[i] in ("MA", "MB") else None) for i in range(n)}
    order = list(range(n)) if insertion == "ascending" else list(range(n))[::-1]
    meta = residue_graph(n, [(i, i + 1) for i in range(n - 1)], names, resids, keys=keys, order=order, from_itp=from_itp, ff=ff)
    ranks = keys
    node_block = {keys[i]: (("MUL", 0 if names[i] == "MA" else 1) if from_itp[i] else ("A", 0)) for i in range(n)}
    if scen in ("M-M", "A-M-M", "M-A-M"):
        sx.cover("doubled fragment")
    if "A" in names:
        sx.cover("mixed")
    MapToMolecule(ff).run_molecule(meta)
    check_layout(sx, meta, specs, sym, node_block, ranks, start, "after mapping")


PROT_FF = """[ moleculetype ]
ALA 1
[ atoms ]
1 P2 1 ALA BB 1 0.0 72.0
2 C3 1 ALA SC1 2 0.0 36.0
[ bonds ]
BB SC1 1 0.27 5000
[ moleculetype ]
GLY 1
[ atoms ]
1 P1 1 GLY BB 1 0.0 72.0
[ moleculetype ]
LYS 1
[ atoms ]
1 P2 1 LYS BB 1 0.0 72.0
2 C3 1 LYS SC1 2 0.0 36.0
3 Q1 1 LYS SC2 3 1.0 36.0
[ bonds ]
BB SC1 1 0.33 5000
SC1 SC2 1 0.28 5000
[ moleculetype ]
; a cap that is not an amino acid (its name happens to be part of "ASN"/"ASP")
AS 1
[ atoms ]
1 SN0 1 AS BB 1 0.0 72.0
2 C1 1 AS SC1 2 0.0 36.0
[ bonds ]
BB SC1 1 0.31 5000
[ moleculetype ]
; another cap that is not an amino acid: its name only begins like one
GLYX 1
[ atoms ]
1 SN0 1 GLYX BB 1 0.0 72.0
[ link ]
resname "ALA|GLY|LYS|AS|GLYX"
[ bonds ]
BB +BB 1 0.35 4000
[ link ]
; an alanine that follows a glycine gets its side-chain atom renamed
[ atoms ]
BB {"resname": "GLY"}
+SC1 {"resname": "ALA", "replace": {"atomname": "SCX"}}
[ bonds ]
BB +SC1 1 0.52 520
[ modification ]
N-ter
[ atoms ]
BB {"replace": {"atype": "Q5", "charge": 1.0}}
[ modification ]
C-ter
[ atoms ]
BB {"replace": {"atype": "Q5", "charge": -1.0}}
SC1 {"replace": {"atype": "C3t"}}
[ modification ]
LYS-neutral
[ atoms ]
SC2 {"replace": {"atype": "N6d", "charge": 0.0}}
SC1 {}
[ bonds ]
SC1 SC2 1 0.30 7000
"""


PROTEIN = {"GLY", "ALA", "CYS", "VAL", "LEU", "ILE", "MET", "PRO", "HYP", "ASN", "GLN", "ASP", "ASP0", "GLU", "GLU0", "THR", "SER",
           "LYS", "LYS0", "ARG", "ARG0", "HIS", "HISH", "PHE", "TYR", "TRP"}


def _snapshot(mol):
    return {k: dict(mol.nodes[k]) for k in mol.nodes}, {t: [(tuple(i.atoms), tuple(i.parameters)) for i in lst] for t, lst in mol.interactions.items()}


@condition("C01.modifications",
           anchors=["polyply.src.apply_modifications:apply_mod", "polyply.src.apply_modifications:_patch_protein_termini",
                    "polyply.src.apply_modifications:ApplyModifications.run_molecule"],
           rejects=(), selector_only=True, must_cover=["default termini", "explicit", "several", "offset", "relabelled", "non-protein terminus untouched", "residues not stored in residue-id order"],
           assumes=["residue ids >= 1"],
           outside=["modifications that add atoms", "-mods spec parsing (vermouth parse_residue_spec is used as is)"],
           bounds={"quick": dict(seqs=[["ALA", "GLY", "LYS"], ["LYS", "ALA"], ["GLY"], ["AS", "ALA", "GLY"], ["GLY", "AS"], ["LYS", "GLY", "ALA"], ["GLYX", "ALA"]], starts=[1, 4]),
                   "thorough": dict(seqs=[["ALA", "GLY", "LYS"], ["LYS", "ALA"], ["GLY"], ["LYS", "LYS", "ALA", "GLY"], ["AS", "ALA", "GLY"],
                                          ["GLY", "AS"], ["AS", "LYS", "AS"], ["LYS", "GLY", "ALA"], ["GLY", "ALA"], ["GLYX", "ALA"], ["ALA", "GLYX"]], starts=[1, 2, 4, 30])})
def modifications(sx, B):
    """Real ApplyModifications after the real MapToMolecule/ApplyLinks on small peptides: default terminal modifications or an explicit
    -mods selection, residue ids starting anywhere, node keys relabelled. Claims: a modification changes only the attributes it names, on
    the atoms it names, inside the residue with the targeted residue id (first / last residue for the default termini); all other
    atoms and all other interactions are untouched; interactions of a modification are added among atoms of the target residue only."""
    seq = sx.sel("sequence", B["seqs"])
    n = len(seq)
    start = sx.sel("first_resid", B["starts"])
    keyf = sx.sel("node_keys", ["resid-1", "1-based", "rotated", "strings"])
    mode = sx.sel("mods", ["default", "explicit", "several"])
    ff = parse_ff([("ff", PROT_FF)])
    keys = {"resid-1": [start - 1 + i for i in range(n)], "1-based": [i + 1 for i in range(n)],
            "rotated": [(i + 1) % n + 10 for i in range(n)], "strings": ["r%d" % i for i in range(n)]}[keyf]
    if start != 1:
        sx.cover("offset")
    if keyf != "resid-1":
        sx.cover("relabelled")
    resids = [start + i for i in range(n)]
    stored = sx.sel("residues_stored", ["in residue-id order", "in reverse order"])
    order = list(range(n)) if stored == "in residue-id order" else list(range(n))[::-1]
    if stored != "in residue-id order" and n > 1:
        sx.cover("residues not stored in residue-id order")
    meta = residue_graph(n, [(i, i + 1) for i in range(n - 1)], seq, resids, keys=keys, order=order, ff=ff)
    MapToMolecule(ff).run_molecule(meta)
    with patched(al, tqdm=_Tqdm):
        ApplyLinks().run_molecule(meta)
    mol = meta.molecule
    before_nodes, before_inters = _snapshot(mol)
    if mode == "default":
        mods = []
        targets = [(resids[0], "N-ter"), (resids[-1], "C-ter")]
        sx.cover("default termini")
    elif mode == "explicit":
        which = sx.sel("target", list(range(n)))
        modname = "LYS-neutral" if seq[which] == "LYS" else sx.sel("modname", ["N-ter", "C-ter"])
        mods = [("%s%d" % (seq[which], resids[which]), modname)]
        targets = [(resids[which], modname)]
        sx.cover("explicit")
    else:
        # several modifications in one run, in a solver-chosen order
        cands = [(0, "N-ter"), (n - 1, "C-ter")] + [(i, "LYS-neutral") for i in range(n) if seq[i] == "LYS"]
        order = sx.sel("mod_order", ["as listed", "reversed", "rotated"])
        cands = {"as listed": cands, "reversed": cands[::-1], "rotated": cands[1:] + cands[:1]}[order]
        mods = [("%s%d" % (seq[i], resids[i]), m) for i, m in cands]
        targets = [(resids[i], m) for i, m in cands]
        sx.cover("several")
    ApplyModifications(modifications=mods, meta_molecule=meta).run_molecule(meta)
    # expected effect, computed independently from the modification table
    table = {"N-ter": {"BB": {"atype": "Q5", "charge": 1.0}}, "C-ter": {"BB": {"atype": "Q5", "charge": -1.0}, "SC1": {"atype": "C3t"}},
             "LYS-neutral": {"SC2": {"atype": "N6d", "charge": 0.0}, "SC1": {}}}
    expect_nodes = {k: dict(v) for k, v in before_nodes.items()}
    expect_new = []
    for resid, modname in targets:
        if seq[resids.index(resid)] not in PROTEIN:
            # a terminal modification is applicable to amino-acid residues only; anything else is left alone (with a warning)
            sx.cover("non-protein terminus untouched")
            continue
        atoms = {before_nodes[k]["atomname"]: k for k in before_nodes if before_nodes[k]["resid"] == resid}
        for aname, repl in table[modname].items():
            if aname in atoms:
                expect_nodes[atoms[aname]].update(repl)
        if modname == "LYS-neutral":
            expect_new.append(("bonds", (atoms["SC1"], atoms["SC2"]), ("1", "0.30", "7000")))
    for k in before_nodes:
        got = dict(mol.nodes[k])
        sx.claim(got == expect_nodes[k], "a modification changes only the named attributes of the named atoms of its target residue",
                 lambda: "atom %r (%s of residue %s): %r expected %r; targets %r" % (
                     k, before_nodes[k]["atomname"], before_nodes[k]["resid"],
                     {a: got.get(a) for a in ("atype", "charge")}, {a: expect_nodes[k].get(a) for a in ("atype", "charge")}, targets))
    sx.claim(set(mol.nodes) == set(before_nodes), "no atom is added or removed")
    after = {t: [(tuple(i.atoms), tuple(i.parameters)) for i in lst] for t, lst in mol.interactions.items()}
    for t in set(after) | set(before_inters):
        old = list(before_inters.get(t, []))
        new = list(after.get(t, []))
        added = list(new)
        for x in old:
            if x in added:
                added.remove(x)
            else:
                sx.claim(False, "interactions present before the modification are kept", lambda: "%s %r lost" % (t, x))
        want = [(a, p) for (tt, a, p) in expect_new if tt == t]
        sx.claim(sorted(added) == sorted(want), "a modification adds exactly its own interactions, on atoms of the target residue",
                 lambda: "%s: added %r expected %r" % (t, added, want))


@condition("C01.gen_params_mods",
           anchors=["polyply.src.gen_itp:gen_params", "polyply.src.apply_modifications:apply_mod"],
           rejects=(), selector_only=True, must_cover=["default termini", "explicit", "non-protein terminus untouched", "atom renamed by a link before the modification"],
           stubs=["apply_links.tqdm -> plain iteration"],
           outside=["sequences other than the listed ones"],
           bounds={"quick": dict(seqs=[["ALA", "GLY", "LYS"], ["LYS", "ALA"], ["AS", "ALA", "GLY"], ["GLY", "ALA"], ["GLYX", "ALA"]]),
                   "thorough": dict(seqs=[["ALA", "GLY", "LYS"], ["LYS", "ALA"], ["GLY"], ["AS", "ALA", "GLY"], ["GLY", "AS"], ["LYS", "LYS", "ALA", "GLY"], ["GLY", "ALA"]])})
def gen_params_mods(sx, B):
    """The same through the real gen_params (files in, .itp out, read back with the real reader): the `mods` option reaches the
    modification stage, the default is the terminal pair, and the written atoms differ from the block copies exactly in the
    attributes the applicable modifications name."""
    import os
    import shutil
    import tempfile
    from pathlib import Path
    import vermouth
    from vermouth.file_writer import DeferredFileWriter
    from polyply.src.polyply_parser import read_polyply
    import polyply.src.gen_itp as gen_itp
    seq = sx.sel("sequence", B["seqs"])
    n = len(seq)
    mode = sx.sel("mods", ["default", "explicit"])
    if mode == "default":
        mods = []
        targets = [(0, "N-ter"), (n - 1, "C-ter")]
        sx.cover("default termini")
    else:
        which = sx.sel("target", list(range(n)))
        modname = "LYS-neutral" if seq[which] == "LYS" else sx.sel("modname", ["N-ter", "C-ter"])
        # as the command line hands it over: -mods ALA1:N-ter -> ["ALA1", "N-ter"]
        mods = [("%s%d:%s" % (seq[which], which + 1, modname)).split(":")]
        targets = [(which, modname)]
        sx.cover("explicit")
    d = tempfile.mkdtemp(prefix="pverif_", dir=os.environ.get("TMPDIR"))
    DeferredFileWriter().open_files.clear()
    try:
        (Path(d) / "prot.ff").write_text(PROT_FF)
        with patched(al, tqdm=_Tqdm):
            gen_itp.gen_params(name="pep", outpath=Path(d) / "out.itp", inpath=[Path(d) / "prot.ff"], seq=["%s:1" % r for r in seq], mods=mods)
        lines = (Path(d) / "out.itp").read_text().split("\n")
    finally:
        DeferredFileWriter().open_files.clear()
        shutil.rmtree(d, ignore_errors=True)
    ff = vermouth.forcefield.ForceField(name="readback")
    read_polyply(lines, ff)
    block = ff.blocks["pep"]
    ref = parse_ff([("ff", PROT_FF)])
    table = {"N-ter": {"BB": {"atype": "Q5", "charge": 1.0}}, "C-ter": {"BB": {"atype": "Q5", "charge": -1.0}, "SC1": {"atype": "C3t"}},
             "LYS-neutral": {"SC2": {"atype": "N6d", "charge": 0.0}, "SC1": {}}}
    want = []
    for r, rn in enumerate(seq):
        for a in ref.blocks[rn].nodes:
            nd = ref.blocks[rn].nodes[a]
            w = {"resid": r + 1, "resname": rn, "atomname": nd["atomname"], "atype": nd["atype"], "charge": float(nd["charge"])}
            if rn == "ALA" and r > 0 and seq[r - 1] == "GLY" and nd["atomname"] == "SC1":
                w["atomname"] = "SCX"        # renamed by the GLY-ALA link; modifications address atoms by their current name
                sx.cover("atom renamed by a link before the modification")
            for (tr, modname) in targets:
                if tr == r and rn in PROTEIN:
                    w.update(table[modname].get(w["atomname"], {}))
                elif tr == r:
                    sx.cover("non-protein terminus untouched")
            want.append(w)
    got = [{k: (float(block.nodes[a][k]) if k == "charge" else block.nodes[a][k]) for k in ("resid", "resname", "atomname", "atype", "charge")}
           for a in sorted(block.nodes)]
    sx.claim(got == want, "the written atoms are the block copies, changed exactly where an applicable modification names an attribute",
             lambda: "sequence %r mods %r: %r" % (seq, mods, [(g, w) for g, w in zip(got, want) if g != w] or (len(got), len(want))))
    nb = sum(1 for i in block.interactions.get("bonds", []) if tuple(i.parameters) == ("1", "0.30", "7000"))
    sx.claim(nb == sum(1 for tr, m in targets if m == "LYS-neutral"), "the bond of the LYS-neutral modification is written once per application")


import harness.C02  # noqa: E402  (registers C01.guarded_links, which reuses the C02 catalogue machinery)
