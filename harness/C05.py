"""C05 - Generated residues are one step apart, inside the box, never overlapping."""
import numpy as np
import networkx as nx
from pverif.harness import condition, patched
from pverif import symx
from pverif.symx import sym_and, sym_or, sym_not, SymReal
from harness.common import meta_from_shape, make_topology, sentinel
import polyply.src.random_walk as rw
import polyply.src.nonbond_engine as nbe
import polyply.src.build_system as bs
from polyply.src.nonbond_engine import NonBondEngine
from polyply.src.random_walk import RandomWalk

BOXES = [np.array([5.0, 5.0, 5.0]), np.array([3.0, 4.0, 5.5]), np.array([2.5, 7.0, 4.0]), np.array([10.0, 10.0, 10.0])]


class _Random:
    @staticmethod
    def randint(a, b):
        return 0

    @staticmethod
    def uniform(a, b):
        return a


@condition("C05.step",
           anchors=["polyply.src.random_walk:_take_step", "polyply.src.linalg_functions:pbc_complete"],
           replay=False, must_cover=["wrapped", "not wrapped"],
           stubs=["random.randint (random_walk) -> index 0 of a one-row bundle holding an arbitrary unit vector"],
           assumes=["step length <= half the shortest box edge (otherwise the minimum image of a step is shorter than the step)"],
           outside=["IEEE rounding at the box faces", "boxes outside the catalogue"],
           bounds={"quick": dict(boxes=BOXES[1:2]), "thorough": dict(boxes=BOXES)},
           budget={"quick": 240, "thorough": 1500})
def step(sx, B):
    """Real _take_step + pbc_complete with a symbolic start point inside a catalogue box, an arbitrary unit vector (|v|^2 = 1) and a
    symbolic step length in (0, min(box)/2]: the new point lies in [0, L) on every axis and its squared minimum-image distance
    (stated independently) to the start point equals the squared step length."""
    box = sx.sel("box", B["boxes"])
    coord = np.array([sx.real("c" + a) for a in "xyz"], dtype=object)
    v = np.array([sx.real("v" + a, -1, 1) for a in "xyz"], dtype=object)
    s = sx.real("step", 0, float(min(box)) / 2, lo_strict=True)
    for i in range(3):
        sx.assume(sym_and(coord[i] >= 0, coord[i] < float(box[i])))
    sx.assume(v[0] * v[0] + v[1] * v[1] + v[2] * v[2] == 1)
    for i in range(3):
        # consequence of |v_i| <= 1 and step > 0, stated so that the quotient of the wrap can be enumerated linearly
        sx.lemma(sym_and(v[i] * s <= s, v[i] * s >= -s), "component of the step is bounded by the step length")
    bundle = np.array([v], dtype=object)
    with patched(rw, random=_Random):
        new, index = rw._take_step(bundle, s, coord, box)
    sx.claim(index == 0, "index of the chosen vector is returned")
    for i in range(3):
        # the same bundle serves all later steps of the molecule: a vector that is drawn again must still have unit length
        sx.claim(bundle[0][i] is v[i] or bundle[0][i] == v[i], "the bundle of unit vectors is left unchanged by a step")
    tot = 0
    wrapped = False
    for i in range(3):
        L = float(box[i])
        sx.claim(sym_and(new[i] >= 0, new[i] < L), "new point lies inside the box")
        d = new[i] - coord[i]
        if d < 0:
            d = -d
        if d <= L - d:
            m = d
        else:
            m = L - d
            wrapped = True
        tot = tot + m * m
    sx.cover("wrapped" if wrapped else "not wrapped")
    sx.claim(tot == s * s, "minimum-image distance between new and old point equals the step length")


@condition("C05.step_length",
           anchors=["polyply.src.random_walk:RandomWalk.update_positions", "polyply.src.nonbond_engine:NonBondEngine.get_interaction",
                    "polyply.src.nonbond_engine:NonBondEngine.from_topology", "polyply.src.topology:lorentz_berthelot_rule"],
           replay=False, must_cover=["mixed sizes", "same name, different template"],
           stubs=["random_walk._take_step -> records the step length it is given", "RandomWalk._is_overlap -> False (C05.overlap)"],
           bounds={"quick": {}, "thorough": {}})
def step_length(sx, B):
    """Real RandomWalk.update_positions, twice in a row on one walker, with the real NonBondEngine.from_topology interaction matrix
    over symbolic residue sizes and a symbolic step factor. Residues are typed as the engine types them: by their template (two
    residues of the same name may have different templates - e.g. an end group - and hence different sizes). Claims: the step length
    handed to the step function is step factor x mean of the sizes of the two residues, for the first and for the following step,
    and each walk starts from the position of the residue it grows from."""
    size = {"A#1": sx.real("sizeA1", 0, None, lo_strict=True), "A#2": sx.real("sizeA2", 0, None, lo_strict=True),
            "B#1": sx.real("sizeB", 0, None, lo_strict=True)}
    fudge = sx.real("step_fudge", 0, None, lo_strict=True)
    tmpl = [sx.sel("res%d" % i, ["A#1", "A#2", "B#1"]) for i in range(4)]
    names = [t.split("#")[0] for t in tmpl]
    mol = meta_from_shape("path4", resnames=names)
    for i in range(4):
        mol.nodes[i]["template"] = tmpl[i]
    mol.nodes[0]["position"] = np.array([1.0, 1.0, 1.0])
    mol.nodes[1]["position"] = np.array([1.5, 1.0, 1.0])
    top = make_topology([mol], volumes=size)
    eng = NonBondEngine.from_topology([mol], top, np.array([10.0, 10.0, 10.0]))
    seen = []
    points = [np.array([2.0, 1.0, 1.0]), np.array([2.5, 1.0, 1.0])]

    def take(vectors, step_length, coord, box):
        seen.append((step_length, np.array(coord, dtype=float)))
        return points[len(seen) - 1], 0

    class RW(RandomWalk):
        def _is_overlap(self, point, node, nrexcl=1):
            return False
    walker = RW(0, eng, step_fudge=fudge, maxdim=eng.boxsize, maxiter=0, vector_sphere=np.array([[1.0, 0.0, 0.0]]))
    walker.molecule = mol
    with patched(rw, _take_step=take):
        walker.update_positions(np.array([[1.0, 0.0, 0.0]]), 2, 1)
        walker.update_positions(np.array([[1.0, 0.0, 0.0]]), 3, 2)
    if tmpl[1] != tmpl[2]:
        sx.cover("mixed sizes")
    if any(names[i] == names[j] and tmpl[i] != tmpl[j] for i in range(4) for j in range(4)):
        sx.cover("same name, different template")
    sx.claim(len(seen) == 2, "one step is attempted per residue")
    if len(seen) != 2:
        return
    sx.claim(seen[0][0] == fudge * (size[tmpl[1]] + size[tmpl[2]]) / 2, "step length is step factor x mean of the two residue sizes")
    sx.claim(seen[1][0] == fudge * (size[tmpl[2]] + size[tmpl[3]]) / 2, "the following step uses the sizes of its own two residues",
             lambda: "templates %r" % (tmpl,))
    sx.claim(bool(np.array_equal(seen[0][1], [1.5, 1.0, 1.0])), "the step starts at the residue grown from")
    sx.claim(bool(np.array_equal(seen[1][1], [2.0, 1.0, 1.0])), "the following step starts at the residue just placed")


@condition("C05.acceptance",
           anchors=["polyply.src.random_walk:RandomWalk.update_positions"],
           must_cover=["placed", "gave up"],
           stubs=["fulfill_geometrical_constraints, checks_milestones, is_restricted, bendiness, _is_overlap -> symbolic boolean per trial",
                  "_take_step -> k-th trial returns sentinel point k and index 0"],
           bounds={"quick": dict(maxiter=[0, 1, 2]), "thorough": dict(maxiter=[0, 1, 2, 3, 4])})
def acceptance(sx, B):
    """Real RandomWalk.update_positions with every predicate outcome a symbolic boolean per trial: a point is added iff all four
    predicates hold and there is no overlap, it is exactly the point that was tested, it is added once, to the node being placed,
    and after maxiter+1 failed trials nothing is added and False is returned."""
    maxiter = sx.sel("maxiter", B["maxiter"])
    ntr = maxiter + 1
    P = [[sx.bool("%s%d" % (nm, t)) for nm in ("geom", "mile", "dir", "bend", "overlap")] for t in range(ntr)]
    mol = meta_from_shape("path3")
    top = make_topology([mol])
    mol.nodes[0]["position"] = np.array([1.0, 1.0, 1.0])
    mol.nodes[1]["position"] = np.array([1.5, 1.0, 1.0])
    eng = NonBondEngine.from_topology([mol], top, np.array([10.0, 10.0, 10.0]))
    added = []
    orig_add = eng.add_positions

    def add(point, mol_idx, node_key, start=True):
        added.append((np.array(point), mol_idx, node_key, start))
        return orig_add(point, mol_idx, node_key, start=start)
    eng.add_positions = add
    trial = {"t": -1}
    tested = []

    def take(vectors, step_length, coord, box):
        trial["t"] += 1
        if trial["t"] >= ntr:
            raise symx.HarnessError("more trials than maxiter+1")
        tested.append(sentinel(trial["t"]))
        return tested[-1], 0

    class RW(RandomWalk):
        def checks_milestones(self, node, pos, fudge=0.7):
            return bool(P[trial["t"]][1])

        def bendiness(self, point, node):
            return bool(P[trial["t"]][3])

        def _is_overlap(self, point, node, nrexcl=1):
            return bool(P[trial["t"]][4])
    walker = RW(0, eng, maxdim=eng.boxsize, maxiter=maxiter)
    walker.molecule = mol
    bundle = np.array([[1.0, 0, 0]] * (ntr + 2))
    # the three residues carry different (marker) restraints and restrictions: the predicates must be asked about the residue
    # that is being placed, with the trial point and the point grown from
    for k in mol.nodes:
        mol.nodes[k]["restraints"] = [("marker", k)]
        mol.nodes[k]["rw_options"] = [("marker", k)]
    asked = []

    def geom(p, d):
        asked.append(("geometry", d.get("restraints"), np.array(p), None))
        return bool(P[trial["t"]][0])

    def restr(p, o, d):
        asked.append(("direction", d.get("rw_options"), np.array(p), np.array(o)))
        return bool(P[trial["t"]][2])
    with patched(rw, _take_step=take, fulfill_geometrical_constraints=geom, is_restricted=restr):
        ok = walker.update_positions(bundle, 2, 1)
    for kind, marker, p, o in asked:
        sx.claim(marker == [("marker", 2)], "the %s predicate is evaluated with the declarations of the residue being placed" % kind,
                 lambda: "asked with %r" % (marker,))
        sx.claim(any(np.array_equal(p, t) for t in tested), "the predicate is asked about the trial point")
        if o is not None:
            sx.claim(bool(np.array_equal(o, [1.5, 1.0, 1.0])), "the direction is measured from the residue grown from")
    # model: first trial whose predicates are all fine
    good = None
    for t in range(ntr):
        if all(bool(P[t][k]) for k in range(4)) and not bool(P[t][4]):
            good = t
            break
    if good is None:
        sx.cover("gave up")
        sx.claim(ok is False and not added, "no point is added when every trial fails")
        sx.claim(bool(np.all(np.isinf(eng.get_point(0, 2)))), "residue stays unpositioned")
    else:
        sx.cover("placed")
        sx.claim(ok is True and len(added) == 1, "exactly one point is added")
        if added:
            sx.claim(bool(np.array_equal(added[0][0], tested[good])) and added[0][1:3] == (0, 2),
                     "the added point is the accepted trial point, added to the residue being placed",
                     lambda: "added %r, accepted trial %d %r" % (added, good, tested[good]))
            sx.claim(len(tested) == good + 1, "no further trial after acceptance")


class _FakeTree:
    def __init__(self, dists):
        self.dists = dists
        self.n = len(dists)

    def _as_other(self):
        return self


class _RefTree:
    def __init__(self, *a, **k):
        pass

    def sparse_distance_matrix(self, other, cutoff):
        return {(0, j): d for j, d in enumerate(other.dists) if d is not None}


class _SP:
    KDTree = _RefTree


class _Scipy:
    spatial = _SP


@condition("C05.overlap",
           anchors=["polyply.src.nonbond_engine:NonBondEngine.compute_force_point", "polyply.src.random_walk:RandomWalk._is_overlap",
                    "polyply.src.graph_utils:neighborhood"],
           replay=False, must_cover=["floor", "force", "two trees", "excluded neighbour"],
           stubs=["scipy.spatial.KDTree (nonbond_engine) -> contract stub: the sparse distance matrix holds an arbitrary symbolic distance <= cut-off for each positioned residue in range",
                  "POTENTIAL_FUNC['LJ'] -> records its arguments and returns an arbitrary symbolic vector (the force law is C16.force_law)"],
           outside=["that scipy returns exactly the pairs within the cut-off", "more than 3 positioned residues in range"],
           bounds={"quick": dict(nmax=3), "thorough": dict(nmax=4)},
           budget={"quick": 200, "thorough": 1200})
def overlap(sx, B):
    """Real RandomWalk._is_overlap + NonBondEngine.compute_force_point over one or two search trees whose neighbour distances are
    symbolic: a candidate is rejected whenever any positioned residue in range - bonded neighbour or not - is closer than 0.1 nm,
    and otherwise iff the norm of the sum of the pair forces over exactly the non-excluded residues in range (all trees) exceeds
    the maximum force; each pair force is evaluated with the pair's own parameters and distance."""
    n = int(sx.int("n_in_range", 1, B["nmax"]))
    two = sx.sel("second_tree", [False, True])
    max_force = sx.real("max_force", 0, None, lo_strict=True)
    # molecule: node 0 = candidate, node 1 = bonded neighbour (excluded), others not bonded
    mol = meta_from_shape((5, [(0, 1), (1, 2), (2, 3), (3, 4)]), resnames=["A", "B", "A", "B", "A"])
    gnd = {(0, k): k for k in range(5)}
    in_range = [sx.sel("who%d" % j, [1, 2, 3, 4][j:j + 2]) for j in range(n)]
    sx.assume(len(set(in_range)) == n)
    dists = [sx.real("d%d" % j, 0, 1.0, lo_strict=True) for j in range(n)]
    eng = NonBondEngine.__new__(NonBondEngine)
    eng.nodes_to_gndx = gnd
    eng.positions = np.array([sentinel(k) for k in range(5)])
    eng.atypes = np.array(["A", "B", "A", "B", "A"])
    eng.interaction_matrix = {frozenset(["A"]): (0.4, 1.0), frozenset(["B"]): (0.6, 1.0), frozenset(["A", "B"]): (0.5, 1.0)}
    eng.boxsize = np.array([10.0, 10.0, 10.0])
    eng.cut_off = 1.0
    if two and n >= 2:
        eng.defined_idxs = [in_range[:1], in_range[1:]]
        eng.position_trees = [_FakeTree(dists[:1]), _FakeTree(dists[1:])]
        sx.cover("two trees")
    else:
        eng.defined_idxs = [list(in_range)]
        eng.position_trees = [_FakeTree(dists)]
    calls = []
    fvecs = []

    def lj(dist, point, ref, params):
        k = len(calls)
        calls.append((dist, np.array(point, dtype=float), np.array(ref, dtype=float), params))
        f = np.array([sx.real("f%d%s" % (k, a)) for a in "xyz"], dtype=object)
        fvecs.append(f)
        return f

    walker = RandomWalk(0, eng, maxdim=eng.boxsize, max_force=max_force)
    walker.molecule = mol
    point = np.array([5.0, 5.0, 5.0])
    with patched(nbe, scipy=_Scipy, POTENTIAL_FUNC={"LJ": lj}):
        res = walker._is_overlap(point, 0)
    floor = sym_or(*[d < 0.1 for d in dists])
    if floor:
        sx.cover("floor")
        sx.claim(bool(res) is True, "a residue closer than 0.1 nm rejects the candidate, bonded neighbour or not")
        return
    contributing = [j for j in range(n) if in_range[j] != 1]
    if 1 in in_range:
        sx.cover("excluded neighbour")
    sx.cover("force")
    sx.claim(len(calls) == len(contributing), "pair forces are evaluated for exactly the non-excluded residues in range (all trees)",
             lambda: "%d calls for %r (in range %r)" % (len(calls), contributing, in_range))
    if len(calls) != len(contributing):
        return
    for (dist, p, ref, params), j in zip(calls, contributing):
        node = in_range[j]
        sx.claim(dist is dists[j] or bool(dist == dists[j]), "pair force uses the pair's own distance")
        sx.claim(bool(np.array_equal(p, point) and np.allclose(ref, eng.positions[node])), "pair force uses the pair's own positions")
        want = eng.interaction_matrix[frozenset(["A", eng.atypes[node]])]
        sx.claim(tuple(params) == tuple(want), "pair force uses the parameters of the pair's sizes")
    tot = [sum((f[i] for f in fvecs), 0) for i in range(3)]
    norm2 = tot[0] * tot[0] + tot[1] * tot[1] + tot[2] * tot[2] if fvecs else 0
    if fvecs:
        if res:
            sx.claim(norm2 > max_force * max_force, "rejected only if the total force exceeds the maximum force")
        else:
            sx.claim(norm2 <= max_force * max_force, "accepted only if the total force does not exceed the maximum force")
    else:
        sx.claim(not res, "no contributing residue: no overlap")


class _Tqdm:
    def __init__(self, *a, **k):
        pass

    def update(self, n):
        pass

    def close(self):
        pass


@condition("C05.start_on_grid",
           anchors=["polyply.src.build_system:BuildSystem._handle_random_walk", "polyply.src.random_walk:RandomWalk._random_walk"],
           selector_only=True, must_cover=["placed"],
           stubs=["build_system.np.random.randint -> solver-chosen grid index", "RandomWalk.update_positions -> always succeeds with a sentinel point"],
           bounds={"quick": dict(ngrid=4), "thorough": dict(ngrid=8)})
def start_on_grid(sx, B):
    """Real BuildSystem.run_system on a molecule without coordinates and a user grid: the first residue is placed exactly on the
    grid point whose index the random generator returned."""
    grid = np.array([[1.0 + 0.9 * j, 2.0, 3.0] for j in range(B["ngrid"])])
    pick = sx.sel("grid_index", list(range(B["ngrid"])))
    use_start = sx.sel("start_node", [None, 2])
    mol = meta_from_shape("path3", "M")
    top = make_topology([mol])
    k = {"k": 0}

    def scripted(self, vector_bundle, current_node, prev_node):
        self.nonbond_matrix.add_positions(sentinel(40 + k["k"]), self.mol_idx, current_node, start=False)
        k["k"] += 1
        return True

    class RW(RandomWalk):
        pass
    RW.update_positions = scripted

    class NPR:
        @staticmethod
        def randint(n):
            return pick

    class NPshim:
        random = NPR

        def __getattr__(self, key):
            return getattr(np, key)
    with patched(bs, RandomWalk=RW, tqdm=_Tqdm, np=NPshim()):
        bs.BuildSystem(top, density=None, start_dict={0: use_start}, box=np.array([10., 10., 10.]), grid=grid).run_system(top.molecules)
    sx.cover("placed")
    first = use_start if use_start is not None else 0
    sx.claim(bool(np.array_equal(mol.nodes[first]["position"], grid[pick])), "first residue sits on the chosen start-grid point",
             lambda: "node %r at %r, grid point %r" % (first, mol.nodes[first]["position"], grid[pick]))
    sx.claim(all(np.all(np.isfinite(mol.nodes[n]["position"])) for n in mol.nodes), "all residues positioned")


@condition("C05.start_check",
           anchors=["polyply.src.random_walk:RandomWalk._random_walk"],
           must_cover=["start accepted", "start rejected"],
           stubs=["fulfill_geometrical_constraints, RandomWalk._is_overlap -> symbolic booleans (their content is C07.geometry / C05.overlap)",
                  "RandomWalk.update_positions -> always succeeds with a sentinel"],
           bounds={"quick": dict(mol_idxs=[0, 1, 2]), "thorough": dict(mol_idxs=[0, 1, 2])})
def start_check(sx, B):
    """Real RandomWalk._random_walk for the first, second and third molecule of a system: the first residue of a molecule without
    coordinates is put on the start point iff the start point satisfies the geometric restraints and does not overlap (both outcomes
    symbolic), whatever the index of the molecule; otherwise nothing is placed and the attempt is reported as failed."""
    mol_idx = sx.sel("molecule_index", B["mol_idxs"])
    geom_ok = sx.bool("start_satisfies_restraints")
    overlaps = sx.bool("start_overlaps")
    metas = [meta_from_shape("path2", "M%d" % i) for i in range(3)]
    top = make_topology(metas)
    eng = NonBondEngine.from_topology(metas, top, np.array([10.0, 10.0, 10.0]))
    tested = []

    class RW(RandomWalk):
        def _is_overlap(self, point, node, nrexcl=1):
            tested.append(("overlap", np.array(point), node))
            return bool(overlaps)

        def update_positions(self, vector_bundle, current_node, prev_node):
            self.nonbond_matrix.add_positions(sentinel(3), self.mol_idx, current_node, start=False)
            return True
    start = np.array([2.0, 3.0, 4.0])
    walker = RW(mol_idx, eng, start=start, maxdim=eng.boxsize, vector_sphere=np.array([[1.0, 0.0, 0.0]]))
    with patched(rw, fulfill_geometrical_constraints=lambda p, d: bool(geom_ok)):
        walker.run_molecule(metas[mol_idx])
    first = next(iter(metas[mol_idx].nodes))
    p = eng.get_point(mol_idx, first)
    if geom_ok and not overlaps:
        sx.cover("start accepted")
        sx.claim(bool(np.array_equal(p, start)) and walker.success is True, "the first residue sits on the start point")
    else:
        sx.cover("start rejected")
        sx.claim(bool(np.all(np.isinf(p))) and walker.success is False, "a start point that violates a restraint or overlaps is not used",
                 lambda: "molecule %d: first residue at %r, success %r" % (mol_idx, p, walker.success))
        sx.claim(all(np.all(np.isinf(eng.get_point(mol_idx, n))) for n in metas[mol_idx].nodes), "nothing is placed after a rejected start")
    if geom_ok:
        sx.claim(len(tested) >= 1 and bool(np.array_equal(tested[0][1], start)), "the overlap test is applied to the start point of every molecule",
                 lambda: "molecule %d: %r" % (mol_idx, tested))


import harness.C16 as _c16      # noqa: E402


@condition("C05.engine_histories",
           anchors=["polyply.src.nonbond_engine:NonBondEngine.compute_force_point", "polyply.src.nonbond_engine:NonBondEngine.concatenate_trees",
                    "polyply.src.nonbond_engine:NonBondEngine.add_positions"],
           rejects=(), selector_only=True, must_cover=["add", "concatenate", "re-add"],
           stubs=["as C16.histories"], cfg={"path_timeout_s": 60},
           bounds={"quick": dict(nops=3, nops_big=2, npoints=2, big=[False]), "thorough": dict(nops=4, nops_big=2, npoints=2, big=[False, True])},
           budget={"quick": 240, "thorough": 1500})
def engine_histories(sx, B):
    """'the soft-sphere force from the positioned non-neighbour residues': the force and overlap queries must see exactly the
    residues positioned so far, with their own types - also after residues were added out of index order and the search trees
    were consolidated. The C16.histories harness (every add / remove / consolidate history against a brute-force reference)."""
    _c16.histories(sx, B)
