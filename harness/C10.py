"""C10 - Every residue-graph edge is realised by a bond or reported as missing."""
import itertools
import logging
import os
import shutil
import tempfile
from pathlib import Path
import networkx as nx
from pverif.harness import condition, patched, capture_logs
from pverif import symx
from harness.ffgen import parse_ff, GRAPHS, residue_graph
from harness.common import top_text, topology_from_text, moltype_text
import polyply.src.apply_links as al
import polyply.src.gen_itp as gen_itp
import polyply.src.gen_coords as gen_coords
from polyply.src.map_to_molecule import MapToMolecule
from polyply.src.apply_links import ApplyLinks
from polyply.src.graph_utils import find_missing_edges, find_connecting_edges


class _Tqdm:
    def __init__(self, it=None, *a, **k):
        self.it = it

    def __iter__(self):
        return iter(self.it)


FF = """[ moleculetype ]
A 1
[ atoms ]
1 TA 1 A BB 1 0.0 1.0
2 TS 1 A SC 2 0.0 1.0
[ bonds ]
BB SC 1 0.30 100
[ moleculetype ]
B 1
[ atoms ]
1 TB 1 B BB 1 0.0 1.0
[ link ]
resname "A"
[ bonds ]
BB +BB 1 0.40 400
[ link ]
resname "A|B"
[ bonds ]
SC +BB 1 0.41 410 {"comment": "side chain to next backbone"}
"""
# a backbone link that is vetoed by its pattern unless the next residue is a B: B-A stays without a bond
FF_PATTERN = """[ link ]
resname "A|B"
[ bonds ]
BB +BB 1 0.43 430
[ patterns ]
BB +BB {"atype": "TB"}
"""


@condition("C10.missing_edges",
           anchors=["polyply.src.graph_utils:find_missing_edges", "polyply.src.graph_utils:find_connecting_edges"],
           rejects=(), must_cover=["missing", "complete", "cycle with missing edge", "extra atom edge"],
           stubs=["apply_links.tqdm -> plain iteration"],
           outside=["atoms disconnected inside one residue", "residue graphs of more than 4 residues"],
           bounds={"quick": dict(nmax=4), "thorough": dict(nmax=4)},
           budget={"quick": 200, "thorough": 900})
def missing_edges(sx, B):
    """Real MapToMolecule + ApplyLinks (links that only join some residue-name pairs) followed by the real find_missing_edges, with
    additional atom-level edges between arbitrary residue pairs injected through symbolic booleans (so that edges between
    non-adjacent residues and cycles whose closing link is missing both occur). Oracle: recount of inter-residue atom edges.
    Claim: the reported pairs are exactly the residue-graph edges without any atom-level edge, each once, with both ids and names."""
    n = int(sx.int("n", 2, B["nmax"]))
    shape = sx.sel("shape", sorted(GRAPHS[n]))
    names = [sx.sel("res%d" % i, ["A", "B"]) for i in range(n)]
    perm = sx.sel("resid_order", [tuple(range(n)), tuple(range(n))[::-1]])
    ff = parse_ff([("ff", FF)])
    meta = residue_graph(n, GRAPHS[n][shape], names, [1 + perm[i] for i in range(n)], ff=ff)
    MapToMolecule(ff).run_molecule(meta)
    with patched(al, tqdm=_Tqdm):
        ApplyLinks().run_molecule(meta)
    mol = meta.molecule
    first_atom = {u: sorted(meta.nodes[u]["graph"].nodes)[0] for u in meta.nodes}
    last_atom = {u: sorted(meta.nodes[u]["graph"].nodes)[-1] for u in meta.nodes}
    for u, v in itertools.combinations(range(n), 2):
        if sx.bool("extra_edge_%d_%d" % (u, v)):
            mol.add_edge(last_atom[u], first_atom[v])
            sx.cover("extra atom edge")
    resid_of = {a: mol.nodes[a]["resid"] for a in mol.nodes}
    joined = set()
    for a, b in mol.edges:
        if resid_of[a] != resid_of[b]:
            joined.add(frozenset((resid_of[a], resid_of[b])))
    want = []
    for u, v in GRAPHS[n][shape]:
        pair = frozenset((1 + perm[u], 1 + perm[v]))
        if pair not in joined:
            want.append(pair)
    got = list(find_missing_edges(meta, mol))
    got_pairs = [frozenset((m["idxA"], m["idxB"])) for m in got]
    sx.cover("missing" if want else "complete")
    if want and shape == "cycle" and nx.is_connected(mol):
        sx.cover("cycle with missing edge")
    sx.claim(sorted(map(sorted, got_pairs)) == sorted(map(sorted, want)), "reported pairs are exactly the residue-graph edges without an atom-level edge, each once",
             lambda: "residues %r shape %s: reported %r expected %r" % (names, shape, sorted(map(sorted, got_pairs)), sorted(map(sorted, want))))
    name_of = {1 + perm[i]: names[i] for i in range(n)}
    sx.claim(all(m["resA"] == name_of[m["idxA"]] and m["resB"] == name_of[m["idxB"]] for m in got), "reports name both residues correctly")
    # and the other direction: an edge that is realised has a connecting atom edge
    for u, v in GRAPHS[n][shape]:
        pair = frozenset((1 + perm[u], 1 + perm[v]))
        ce = find_connecting_edges(meta, mol, (u, v))
        sx.claim(bool(ce) == (pair in joined), "connecting atom edges are found iff they exist")


@condition("C10.warnings",
           anchors=["polyply.src.gen_itp:gen_params", "polyply.src.graph_utils:find_missing_edges"],
           rejects=(), selector_only=True, must_cover=["warned", "silent", "json ring", "json star", "explicit link", "link vetoed by its pattern"],
           outside=["sequences longer than the bound"],
           bounds={"quick": dict(nmax=4), "thorough": dict(nmax=5)},
           budget={"quick": 200, "thorough": 900})
def warnings_(sx, B):
    """Real gen_params on generated input files (-seq, or a .json residue graph that is a ring or a star, over two residue types;
    links only between some name pairs): the captured missing-link warnings name exactly the connected residue pairs that have no
    bond/constraint between them in the written .itp - also when the atoms stay connected around a ring, and also when the joining
    bond or constraint comes from an explicit (by_atom_id) link."""
    shape = sx.sel("input", ["seq", "json ring", "json star"])
    n = int(sx.int("n", 2 if shape == "seq" else 3, B["nmax"]))
    names = [sx.sel("res%d" % i, ["A", "B"]) for i in range(n)]
    explicit = sx.sel("explicit_link_1_2", ["none", "bonds", "constraints"])
    edges = {"seq": [(i, i + 1) for i in range(n - 1)], "json ring": [(i, (i + 1) % n) for i in range(n)],
             "json star": [(0, i) for i in range(1, n)]}[shape]
    d = tempfile.mkdtemp(prefix="pverif_", dir=os.environ.get("TMPDIR"))
    try:
        ffp = Path(d) / "in.ff"
        fftext = FF
        if sx.sel("pattern_guarded_link", [False, True]):
            fftext += FF_PATTERN
            if any(names[a] == "B" and names[b] == "A" for a, b in edges if b == a + 1):
                sx.cover("link vetoed by its pattern")
        if explicit != "none":
            # an explicit link (atoms addressed by their number in the final molecule) between the backbone atoms of residues 1 and 2
            second_bb = 1 + (2 if names[0] == "A" else 1)
            fftext += "[ link ]\n[ molmeta ]\nby_atom_id true\n[ %s ]\n1 %d 1 0.5%s\n" % (explicit, second_bb, " 500" if explicit == "bonds" else "")
            sx.cover("explicit link")
        ffp.write_text(fftext)
        out = Path(d) / "out.itp"
        kw = {}
        if shape == "seq":
            kw["seq"] = ["%s:1" % x for x in names]
        else:
            import json
            g = {"directed": False, "multigraph": False, "graph": {}, "nodes": [{"id": i, "resname": names[i], "resid": i + 1} for i in range(n)],
                 "links": [{"source": a, "target": b} for a, b in edges], "edges": [{"source": a, "target": b} for a, b in edges]}
            (Path(d) / "seq.json").write_text(json.dumps(g))
            kw["seq_file"] = Path(d) / "seq.json"
            sx.cover(shape)
        with capture_logs("polyply") as records:
            logging.getLogger("polyply").setLevel(logging.WARNING)
            with patched(al, tqdm=_Tqdm):
                gen_itp.gen_params(name="mol", outpath=out, inpath=[ffp], **kw)
        text = out.read_text()
    finally:
        shutil.rmtree(d, ignore_errors=True)
    # recount from the written file
    sec, atoms_res, bonded = None, {}, set()
    for line in text.split("\n"):
        line = line.split(";")[0].strip()
        if not line:
            continue
        if line.startswith("["):
            sec = line.strip("[] ")
            continue
        tok = line.split()
        if sec == "atoms":
            atoms_res[int(tok[0])] = int(tok[2])
        elif sec in ("bonds", "constraints"):
            a, b = atoms_res[int(tok[0])], atoms_res[int(tok[1])]
            if a != b:
                bonded.add(frozenset((a, b)))
    want = sorted((min(a, b) + 1, max(a, b) + 1) for a, b in edges if frozenset((a + 1, b + 1)) not in bonded)
    got = []
    for r in records:
        msg = str(r.getMessage()) if not hasattr(r.msg, "format") else None
        try:
            msg = r.getMessage()
        except Exception:
            msg = str(r.msg)
        if "Missing a link" in str(msg):
            kw = getattr(r, "kwargs", None)
            import re
            m = re.search(r"residue (\d+) (\w+) and residue (\d+) (\w+)", str(msg))
            if m:
                got.append((int(m.group(1)), m.group(2), int(m.group(3)), m.group(4)))
    sx.cover("warned" if want else "silent")
    sx.claim(sorted((min(a, c), max(a, c)) for a, _, c, _ in got) == want, "one missing-link warning per consecutive residue pair without a bond",
             lambda: "sequence %r: warnings %r expected pairs %r" % (names, got, want))
    sx.claim(all(names[a - 1] == ra and names[c - 1] == rc for a, ra, c, rc in got), "warnings name the residues correctly", lambda: repr(got))


MOLS = {"POL": [("A", ["a1"]), ("B", ["b1"]), ("A", ["a1"])], "SOL": [("S", ["s1"])], "DIM": [("A", ["a1"]), ("A", ["a1"])],
        # a three-membered ring with a pendant residue (bonds listed below)
        "RNG": [("A", ["a1"]), ("B", ["b1"]), ("A", ["a1"]), ("B", ["b1"])]}
RNG_BONDS = [(1, 2), (2, 3), (3, 1), (1, 4)]
# a ladder: two residues of two atoms each, joined by two bonds
MOLS["LAD"] = [("A", ["a1", "a2"]), ("B", ["b1", "b2"])]
SPECIAL_BONDS = {"RNG": RNG_BONDS, "LAD": [(1, 2), (3, 4), (1, 3), (2, 4)]}


def _connected(natoms, bonds):
    """own reachability over atom numbers 1..natoms"""
    seen, todo = {1}, [1]
    while todo:
        x = todo.pop()
        for a, b in bonds:
            for u, v in ((a, b), (b, a)):
                if u == x and v not in seen:
                    seen.add(v)
                    todo.append(v)
    return len(seen) == natoms


def broken_moltypes(sx):
    """molecule-type texts in which a solver-chosen type misses a solver-chosen bond - optionally with an angle (and a dihedral)
    still listed across the gap, as gen_params writes it when the bond link was missing but the angle link applied; returns
    (texts, names of the types that are not connected by bonds)"""
    broken = sx.sel("broken_type", ["none", "POL", "DIM", "RNG"])
    which = sx.sel("missing_bond", [0, 1, 2, 3])
    bridged = sx.sel("angle_listed_across_the_gap", [False, True])
    mt = {}
    disconnected_types = set()
    for name, res in MOLS.items():
        natoms = sum(len(a) for _, a in res)
        bonds = list(SPECIAL_BONDS[name]) if name in SPECIAL_BONDS else [(i, i + 1) for i in range(1, natoms)]
        gap = None
        if name == broken and bonds:
            gap = bonds.pop(min(which, len(bonds) - 1))
        if not _connected(natoms, bonds):
            disconnected_types.add(name)
            if name == "RNG":
                sx.cover("ring plus detached residue")
        elif name == "RNG" and name == broken:
            sx.cover("ring still connected")
        text = moltype_text(name, res, bonds=bonds)
        if gap is not None and bridged:
            third = [x for a, b in bonds for x, y in ((a, b), (b, a)) if y in gap and x not in gap]
            if third:
                pivot = [y for a, b in bonds for x, y in ((a, b), (b, a)) if x == third[0] and y in gap][0]
                other = gap[0] if gap[1] == pivot else gap[1]
                text += "\n[ angles ]\n%d %d %d 2 120 50" % (third[0], pivot, other)
                if name in disconnected_types:
                    sx.cover("gap spanned by an angle only")
        mt[name] = text
    return mt, disconnected_types


@condition("C10.connectivity_gate",
           anchors=["polyply.src.gen_coords:_check_molecules"],
           rejects=(), selector_only=True, must_cover=["rejected", "accepted", "ring still connected", "ring plus detached residue", "gap spanned by an angle only"],
           bounds={"quick": dict(layouts=[[("SOL", 2), ("POL", 1)], [("POL", 1), ("SOL", 2)], [("DIM", 2), ("POL", 1), ("SOL", 1)], [("SOL", 1), ("DIM", 1)],
                                          [("SOL", 1), ("RNG", 1)], [("RNG", 2), ("POL", 1)], [("LAD", 1), ("SOL", 1)]]),
                   "thorough": dict(layouts=[[("SOL", 2), ("POL", 1)], [("POL", 1), ("SOL", 2)], [("DIM", 2), ("POL", 1), ("SOL", 1)], [("SOL", 1), ("DIM", 1)],
                                             [("SOL", 3), ("DIM", 2), ("POL", 2)], [("POL", 2), ("DIM", 1)], [("SOL", 1), ("RNG", 1)],
                                             [("RNG", 2), ("POL", 1)], [("DIM", 1), ("RNG", 1), ("SOL", 2)], [("LAD", 1), ("SOL", 1)]])})
def connectivity_gate(sx, B):
    """Real _check_molecules (the gate gen_coords applies before building) on topologies read by the real reader in which a
    solver-chosen molecule type (chains, and a ring with a pendant residue) misses a solver-chosen bond: building is refused iff
    some molecule of the list is disconnected, wherever it stands in [ molecules ] and whatever precedes it - also when the
    remaining bonds are as many as a connected molecule of that size would need, and also when an angle is still listed across
    the gap (angles do not connect atoms)."""
    layout = sx.sel("layout", B["layouts"])
    mt, disconnected_types = broken_moltypes(sx)
    top = topology_from_text(top_text(mt, layout))
    any_disconnected = any(nm in disconnected_types and cnt > 0 for nm, cnt in layout)
    try:
        gen_coords._check_molecules(top.molecules)
    except IOError:
        sx.cover("rejected")
        sx.claim(any_disconnected, "only topologies with a disconnected molecule are refused")
        return
    sx.cover("accepted")
    sx.claim(not any_disconnected, "a molecule whose atoms are not all connected is refused",
             lambda: "layout %r accepted although %r lack a bond" % (layout, sorted(disconnected_types)))



from harness.ffgen import multi_res_block, block_text_itp, simple_block, block_text_ff    # noqa: E402


@condition("C10.fragments",
           anchors=["polyply.src.graph_utils:find_missing_edges"],
           rejects=(), selector_only=True, must_cover=["junction missing", "junction linked", "atoms of a residue not contiguous in the block"],
           stubs=["apply_links.tqdm -> plain iteration"],
           bounds={"quick": dict(), "thorough": dict()})
def fragments(sx, B):
    """Real MapToMolecule + ApplyLinks + find_missing_edges on two consecutive copies of a two-residue block (from_itp), optionally
    followed by a regular residue, with and without a link that joins the copies: the junction between the copies is reported
    exactly when no atom-level edge joins it, although both residues carry the same from_itp label."""
    link = sx.sel("junction_link", [False, True])
    tail = sx.sel("regular_residue_after", [False, True])
    interleaved = sx.sel("atoms_of_the_block_listed", ["residue by residue", "with the second residue in between"]) != "residue by residue"
    if interleaved:
        sx.cover("atoms of a residue not contiguous in the block")
    mspec = multi_res_block("MUL", interleaved=interleaved)
    texts = [("itp", block_text_itp(mspec)), ("ff", block_text_ff(simple_block("A", 1)))]
    if link:
        texts.append(("ff", '[ link ]\nresname "MB|MA"\n[ bonds ]\nm3 {"resname": "MB"} +m1 {"resname": "MA"} 1 0.4 400\n'))
    ff = parse_ff(texts)
    # (the interleaved block is used once: a second copy of such a block is numbered wrongly by the merge step of the pinned
    # tree - residue numbers continue from the last atom's residue instead of the highest one - which is outside this property)
    ncopy = 1 if interleaved else 2
    names = ["MA", "MB"] * ncopy + (["A"] if tail else [])
    n = len(names)
    fi = {i: ("MUL" if i < 2 * ncopy else None) for i in range(n)}
    meta = residue_graph(n, [(i, i + 1) for i in range(n - 1)], names, [i + 1 for i in range(n)], from_itp=fi, ff=ff)
    MapToMolecule(ff).run_molecule(meta)
    with patched(al, tqdm=_Tqdm):
        ApplyLinks().run_molecule(meta)
    mol = meta.molecule
    resid_of = {a: mol.nodes[a]["resid"] for a in mol.nodes}
    joined = set(frozenset((resid_of[a], resid_of[b])) for a, b in mol.edges if resid_of[a] != resid_of[b])
    want = sorted(sorted((i + 1, i + 2)) for i in range(n - 1) if frozenset((i + 1, i + 2)) not in joined)
    got = sorted(sorted((m["idxA"], m["idxB"])) for m in find_missing_edges(meta, mol))
    if not interleaved:
        sx.cover("junction linked" if frozenset((2, 3)) in joined else "junction missing")
    sx.claim(got == want, "the junction between two copies of a multi-residue block is reported exactly when nothing joins it",
             lambda: "link %r: reported %r expected %r" % (link, got, want))


FF_REMOVE = """[ moleculetype ]
A 1
[ atoms ]
1 TA 1 A BB 1 0.0 1.0
2 TS 1 A SC 2 0.0 1.0
[ bonds ]
BB SC 1 0.30 100
[ moleculetype ]
B 1
[ atoms ]
1 TB 1 B BB 1 0.0 1.0
[ link ]
resname "A"
[ bonds ]
BB +BB 1 0.40 400
[ link ]
resname "A"
[ atoms ]
SC {"replace": {"atomname": null}}
BB {}
[ non-edges ]
BB +BB
"""


@condition("C10.after_removal",
           anchors=["polyply.src.graph_utils:find_missing_edges", "polyply.src.apply_links:ApplyLinks.run_molecule"],
           rejects=(), selector_only=True, must_cover=["atom removed and link missing"],
           stubs=["apply_links.tqdm -> plain iteration"],
           bounds={"quick": dict(nmax=4), "thorough": dict(nmax=5)})
def after_removal(sx, B):
    """As C10.missing_edges for a force field whose chain-end link removes an atom: residue pairs that are connected in the residue
    graph but have no link (A next to B) are still reported after the residue graph was rebuilt for the removed atoms."""
    n = int(sx.int("n", 2, B["nmax"]))
    names = [sx.sel("res%d" % i, ["A", "B"]) for i in range(n)]
    ff = parse_ff([("ff", FF_REMOVE)])
    edges = [(i, i + 1) for i in range(n - 1)]
    meta = residue_graph(n, edges, names, [i + 1 for i in range(n)], ff=ff)
    MapToMolecule(ff).run_molecule(meta)
    natoms = len(meta.molecule.nodes)
    with patched(al, tqdm=_Tqdm):
        ApplyLinks().run_molecule(meta)
    mol = meta.molecule
    resid_of = {a: mol.nodes[a]["resid"] for a in mol.nodes}
    joined = set(frozenset((resid_of[a], resid_of[b])) for a, b in mol.edges if resid_of[a] != resid_of[b])
    want = sorted(sorted((a + 1, b + 1)) for a, b in edges if frozenset((a + 1, b + 1)) not in joined)
    got = sorted(sorted((m["idxA"], m["idxB"])) for m in find_missing_edges(meta, mol))
    if len(mol.nodes) < natoms and want:
        sx.cover("atom removed and link missing")
    sx.claim(got == want, "connected residue pairs without an atom-level edge are reported also after a link removed atoms",
             lambda: "residues %r: reported %r expected %r" % (names, got, want))
