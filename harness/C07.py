"""C07 - Build-file restraints hold for every residue they select."""
import collections
import numpy as np
import networkx as nx
from pverif.harness import condition, patched
from pverif import symx
from pverif.symx import ite, sym_and, sym_or, sym_not, sym_implies
from harness.common import meta_from_shape, make_topology

import polyply.src.random_walk as rw
import polyply.src.restraints as restraints
import polyply.src.gen_coords as gen_coords
import polyply.src.persistence as persistence
from polyply.src.nonbond_engine import NonBondEngine
from polyply.src.random_walk import RandomWalk


def vec(sx, name, lo=None, hi=None):
    return np.array([sx.real("%s_%s" % (name, a), lo, hi) for a in "xyz"], dtype=object)


def sq(x):
    return x * x


# ---------------------------------------------------------------------------------------------------
@condition("C07.geometry",
           anchors=["polyply.src.random_walk:in_sphere", "polyply.src.random_walk:in_cylinder", "polyply.src.random_walk:in_rectangle",
                    "polyply.src.random_walk:fulfill_geometrical_constraints"],
           replay=False, must_cover=["sphere", "cylinder", "rectangle", "two restraints"],
           outside=["IEEE rounding (reals)", "the converse direction for the z-test of an 'out' cylinder (the code is stricter than the definition)"],
           bounds={"quick": {}, "thorough": {}})
def geometry(sx, B):
    """Real fulfill_geometrical_constraints / in_sphere / in_cylinder / in_rectangle with symbolic point, centre and sizes (reals):
    a point that the predicate accepts satisfies the geometric definition of every declared restraint (inside: within the radius /
    radius and half height / half edges; outside: not strictly inside), for one restraint and for two combined restraints."""
    p = vec(sx, "p")
    restr = []
    defs = []
    nres = sx.sel("nrestraints", [1, 2])
    for k in range(nres):
        kind = sx.sel("kind%d" % k, ["sphere", "cylinder", "rectangle"])
        io = sx.sel("in_out%d" % k, ["in", "out"])
        c = vec(sx, "c%d" % k)
        d = c - p
        sx.cover(kind)
        if kind == "sphere":
            r = sx.real("r%d" % k, 0, None)
            restr.append((io, c, r, "sphere"))
            d2 = sq(d[0]) + sq(d[1]) + sq(d[2])
            defs.append(d2 <= r * r if io == "in" else d2 >= r * r)
        elif kind == "cylinder":
            r = sx.real("r%d" % k, 0, None)
            h = sx.real("h%d" % k, 0, None)
            restr.append((io, c, r, h, "cylinder"))
            rad2 = sq(d[0]) + sq(d[1])
            inside = sym_and(rad2 < r * r, abs(d[2]) < h)
            defs.append(inside if io == "in" else sym_not(inside))
        else:
            a = [sx.real("a%d_%d" % (k, i), 0, None) for i in range(3)]
            restr.append((io, c, a[0], a[1], a[2], "rectangle"))
            inside = sym_and(*[abs(d[i]) < a[i] for i in range(3)])
            defs.append(inside if io == "in" else sym_not(inside))
    if nres == 2:
        sx.cover("two restraints")
    accepted = rw.fulfill_geometrical_constraints(p, {"restraints": restr})
    if accepted:
        sx.cover("accepted")
        for k, dfn in enumerate(defs):
            sx.claim(dfn, "accepted point satisfies the %s restraint %s" % (restr[k][-1], restr[k][0]))
    else:
        sx.cover("rejected")
        # no over-rejection for the inside variants and the sphere: some restraint is really violated
        if all(r[0] == "in" or r[-1] == "sphere" for r in restr):
            sx.claim(sym_or(*[sym_not(dfn) if not isinstance(dfn, bool) else (not dfn) for dfn in defs_strict(restr, p)]),
                     "rejected point violates a declared restraint")


def defs_strict(restr, p):
    """definitions with the boundary counted as allowed (what rejection must contradict)"""
    out = []
    for r in restr:
        io, c = r[0], r[1]
        d = c - p
        if r[-1] == "sphere":
            d2 = sq(d[0]) + sq(d[1]) + sq(d[2])
            out.append(d2 <= r[2] * r[2] if io == "in" else d2 >= r[2] * r[2])
        elif r[-1] == "cylinder":
            out.append(sym_and(sq(d[0]) + sq(d[1]) < r[2] * r[2], abs(d[2]) < r[3]))
        else:
            out.append(sym_and(*[abs(d[i]) < r[2 + i] for i in range(3)]))
    return out


# ---------------------------------------------------------------------------------------------------
@condition("C07.direction",
           anchors=["polyply.src.random_walk:is_restricted", "polyply.src.linalg_functions:_vector_angle_degrees"],
           replay=False, must_cover=["accepted", "rejected"],
           assumes=["the step does not cross a periodic face (the direction is computed from wrapped coordinates)"],
           outside=["the numeric value of arccos/degrees (uninterpreted monotone functions)"],
           bounds={"quick": {}, "thorough": {}})
def direction(sx, B):
    """Real is_restricted with symbolic normal, points and reference angle: an accepted step has a component along the normal of
    the same sign as the reference angle, and the angle between step and normal (normals of any length) does not exceed |reference|."""
    n = vec(sx, "n", -3, 3)
    old = vec(sx, "old", 0, 5)
    step = vec(sx, "step", -1, 1)
    ref = sx.real("ref_angle", -180, 180)
    sx.assume(sq(n[0]) + sq(n[1]) + sq(n[2]) > 0)
    sx.assume(sq(step[0]) + sq(step[1]) + sq(step[2]) > 0)
    sx.assume(ref != 0)
    new = old + step
    ok = rw.is_restricted(new, old, {"rw_options": [[n, ref]]})
    dot = n[0] * step[0] + n[1] * step[1] + n[2] * step[2]
    if ok:
        sx.cover("accepted")
        sx.claim(sym_or(sym_and(dot > 0, ref > 0), sym_and(dot < 0, ref < 0)),
                 "accepted step points to the side of the plane the reference angle names")
        # the angle between normal and step (normal of any length: the build file does not ask for unit normals), stated
        # independently: degrees(arccos(n.step / (|n| |step|))), arccos and degrees being the same uninterpreted monotone functions
        ln = np.sqrt(sq(n[0]) + sq(n[1]) + sq(n[2]))
        ls = np.sqrt(sq(step[0]) + sq(step[1]) + sq(step[2]))
        angle = np.degrees(np.arccos(dot / (ln * ls)))
        sx.claim(angle <= abs(ref), "the angle between an accepted step and the normal does not exceed the reference angle")
    else:
        sx.cover("rejected")
    sx.claim(rw.is_restricted(new, old, {}) is True, "no restriction declared: accepted")


# ---------------------------------------------------------------------------------------------------
class _Eng(NonBondEngine):
    """NonBondEngine without the KD-trees: positions are an object array of symbolic reals"""
    def __init__(self, positions, nodes_to_gndx, box, inter=None, atypes=None):
        self.positions = positions
        self.nodes_to_gndx = nodes_to_gndx
        self.boxsize = box
        self.interaction_matrix = inter or {}
        self.atypes = atypes


def min_image_sq(a, b, box):
    """independent statement of the squared minimum-image distance for points inside the box"""
    tot = 0
    for i in range(3):
        d = abs(a[i] - b[i])
        m = ite(d <= box[i] - d, d, box[i] - d)
        tot = tot + m * m
    return tot


BOXES = [np.array([5.0, 5.0, 5.0]), np.array([3.0, 4.0, 5.5])]


@condition("C07.min_image",
           anchors=["polyply.src.nonbond_engine:NonBondEngine.pbc_min_dist"],
           replay=False, must_cover=["direct", "wrapped"],
           outside=["IEEE rounding", "boxes outside the catalogue", "positions outside the box"],
           bounds={"quick": dict(boxes=BOXES[1:]), "thorough": dict(boxes=BOXES)},
           budget={"quick": 240, "thorough": 1200})
def min_image(sx, B):
    """Real NonBondEngine.pbc_min_dist on two symbolic points inside a catalogue box (`%` modelled by quotient forking): the
    squared result equals the independently stated squared minimum-image distance sum_i min(|d_i|, L_i - |d_i|)^2."""
    box = sx.sel("box", B["boxes"])
    a, b = vec(sx, "a"), vec(sx, "b")
    for v in (a, b):
        for i in range(3):
            sx.assume(sym_and(v[i] >= 0, v[i] < float(box[i])))
    eng = _Eng(None, {}, box)
    dist = eng.pbc_min_dist(a, b)
    tot = 0
    wrapped = False
    for i in range(3):
        d = a[i] - b[i]
        if d < 0:
            d = -d
        L = float(box[i])
        if d <= L - d:
            m = d
        else:
            m = L - d
            wrapped = True
        tot = tot + m * m
    sx.cover("wrapped" if wrapped else "direct")
    sx.claim(dist ** 2 == tot, "pbc_min_dist is the minimum-image distance")


@condition("C07.milestones",
           anchors=["polyply.src.random_walk:RandomWalk.checks_milestones"],
           replay=False, must_cover=["accepted", "rejected", "two restraints"],
           stubs=["NonBondEngine.pbc_min_dist -> an arbitrary non-negative distance per call, arguments recorded (its value is decided in C07.min_image)"],
           bounds={"quick": {}, "thorough": {}})
def milestones(sx, B):
    """Real RandomWalk.checks_milestones with symbolic bounds; the minimum-image distance returned for each restraint is an
    arbitrary symbolic value (its correctness is C07.min_image) and the call arguments are recorded: the distance is taken
    between the candidate position and the reference residue's position, a position is accepted iff every declared restraint
    has lower <= distance <= upper."""
    nrestr = sx.sel("nrestraints", [1, 2, 3])
    pos = np.array([1.0, 2.0, 3.0])
    refs = [np.array([0.5 + k, 1.0, 2.0]) for k in range(nrestr)]
    bnds = [(sx.real("upper%d" % k), sx.real("lower%d" % k)) for k in range(nrestr)]
    dists = [sx.real("dist%d" % k, 0, None) for k in range(nrestr)]
    positions = np.array([list(r) for r in refs] + [[9.0, 9.0, 9.0]] * 2)
    calls = []

    class E(_Eng):
        def pbc_min_dist(self, p, q):
            calls.append((np.array(p, dtype=float), np.array(q, dtype=float)))
            return dists[len(calls) - 1]

    eng = E(positions, {(0, 10 + k): k for k in range(nrestr)}, np.array([10., 10., 10.]))
    eng.nodes_to_gndx[(0, "cur")] = nrestr
    eng.nodes_to_gndx[(0, "free")] = nrestr + 1
    mol = nx.Graph()
    mol.add_node("cur", distance_restraints=[(10 + k, bnds[k][0], bnds[k][1]) for k in range(nrestr)])
    mol.add_node("free")
    walker = RandomWalk(0, eng, maxdim=eng.boxsize)
    walker.molecule = mol
    if nrestr >= 2:
        sx.cover("two restraints")
    ok = walker.checks_milestones("cur", pos)
    for k, (p, q) in enumerate(calls):
        sx.claim(bool(np.array_equal(p, pos) and np.array_equal(q, refs[k])) or bool(np.array_equal(q, pos) and np.array_equal(p, refs[k])),
                 "distance is measured between the candidate position and the reference residue (minimum image)")
    within = [sym_and(dists[k] <= bnds[k][0], dists[k] >= bnds[k][1]) for k in range(nrestr)]
    if ok:
        sx.cover("accepted")
        sx.claim(len(calls) == nrestr, "every restraint of the node is evaluated with the minimum-image distance",
                 lambda: "%d calls for %d restraints" % (len(calls), nrestr))
        sx.claim(sym_and(*within), "accepted position is within [lower, upper] for every restraint")
    else:
        sx.cover("rejected")
        sx.claim(len(calls) >= 1, "rejection is based on a minimum-image distance")
        sx.claim(sym_not(sym_and(*within[:len(calls)])), "rejected position violates a distance bound")
    sx.claim(walker.checks_milestones("free", pos) is True, "node without restraints: accepted")


# ---------------------------------------------------------------------------------------------------
def _engine_for(sx, mol, sizes):
    names = sorted(set(mol.nodes[n]["resname"] for n in mol.nodes))
    inter = {}
    for a in names:
        for b in names:
            inter[frozenset([a, b])] = ((sizes[a] + sizes[b]) / 2, 1.0)
    atypes = np.array([mol.nodes[n]["resname"] for n in mol.nodes])
    return _Eng(None, {(0, n): i for i, n in enumerate(mol.nodes)}, None, inter, atypes)


@condition("C07.bounds",
           anchors=["polyply.src.restraints:set_distance_restraint", "polyply.src.restraints:set_restraints",
                    "polyply.src.graph_utils:compute_avg_step_length", "polyply.src.graph_utils:get_all_predecessors"],
           replay=False, must_cover=["forward", "reversed", "two restraints same reference", "two molecule types"],
           outside=["bounds of intermediate path nodes (only the restrained pair is part of the statement)", "branched molecules (rejected by the code)"],
           bounds={"quick": dict(nmax=5), "thorough": dict(nmax=6)},
           budget={"quick": 200, "thorough": 1200})
def bounds(sx, B):
    """Real set_restraints / set_distance_restraint / compute_avg_step_length on a chain whose length, restraint end points
    (either order) and a second restraint sharing the reference are solver-chosen, with symbolic distance, tolerance and residue
    sizes: the node of the pair that is placed later carries (other node, d + tol + average step, d - tol) for every declared
    restraint."""
    n = int(sx.int("n", 3, B["nmax"]))
    names = [sx.sel("res%d" % i, ["A", "B"]) for i in range(n)]
    mol = meta_from_shape((n, [(i, i + 1) for i in range(n - 1)]), resnames=names)
    sizes = {"A": sx.real("sizeA", 0, None, lo_strict=True), "B": sx.real("sizeB", 0, None, lo_strict=True)}
    top = make_topology([mol])
    eng = _engine_for(sx, mol, sizes)
    a = int(sx.int("ref", 0, n - 1))
    b = int(sx.int("target", 0, n - 1))
    sx.assume(a != b)
    d1, t1 = sx.real("dist", 0, None), sx.real("tol", 0, None)
    decl = collections.OrderedDict()
    decl[(a, b)] = (d1, t1)
    two = sx.sel("second", [False, True])
    if two:
        c = int(sx.int("target2", 0, n - 1))
        sx.assume(c != a and c != b)
        decl[(a, c)] = (sx.real("dist2", 0, None), sx.real("tol2", 0, None))
        sx.cover("two restraints same reference")
    other = sx.sel("other_molecule_first", [False, True])
    if other:
        # a molecule of another type with larger residues, restrained as well and listed first in the build file
        big = meta_from_shape((3, [(0, 1), (1, 2)]), mol_name="BIG", resnames=["L", "L", "L"])
        top.molecules.insert(0, big)
        top.mol_idx_by_name["BIG"] = [0]
        top.mol_idx_by_name["M"] = [1]
        sL = sx.real("sizeL", 0, None, lo_strict=True)
        eng.interaction_matrix[frozenset(["L"])] = (sL, 1.0)
        n_big = 3
        eng.nodes_to_gndx = {(1, k): i for i, k in enumerate(mol.nodes)}
        eng.nodes_to_gndx.update({(0, k): len(mol.nodes) + i for i, k in enumerate(big.nodes)})
        eng.atypes = np.array(list(eng.atypes) + ["L"] * n_big)
        top.distance_restraints[("BIG", 0)] = {(0, 2): (sx.real("distL", 0, None), 0.0)}
        top.distance_restraints[("M", 1)] = decl
        sx.cover("two molecule types")
    else:
        top.distance_restraints[("M", 0)] = decl
    sx.cover("forward" if a < b else "reversed")
    restraints.set_restraints(top, eng)
    path = list(mol.search_tree.edges)
    avg = sum(((sizes[names[i]] + sizes[names[j]]) / 2 for i, j in path), 0) / len(path)
    order = [path[0][0]] + [e[1] for e in path]
    for (r, t), (d, tol) in decl.items():
        later, other = (t, r) if order.index(t) > order.index(r) else (r, t)
        got = [x for x in mol.nodes[later].get("distance_restraints", []) if x[0] == other]
        # (intermediate nodes of another restraint with the same reference carry additional envelope entries)
        if sx.claim(len(got) >= 1, "the later-placed node of the pair carries a bound entry for the other node",
                    lambda: "node %r: %r" % (later, mol.nodes[later].get("distance_restraints"))):
            sx.claim(sym_or(*[sym_and(x[1] == d + tol + avg, x[2] == d - tol) for x in got]),
                     "bounds are (d + tol + one average step, d - tol)")


# ---------------------------------------------------------------------------------------------------
@condition("C07.cycles",
           anchors=["polyply.src.gen_coords:_initialize_cylces", "polyply.src.meta_molecule:MetaMolecule.search_tree",
                    "polyply.src.restraints:set_restraints"],
           rejects=(), selector_only=True, replay=True, must_cover=["ring", "two cycles rejected", "with build-file restraint", "walk starts elsewhere"],
           outside=["rings larger than the bound", "molecules with rings plus tails (the statement speaks of ring-shaped molecules)"],
           bounds={"quick": dict(nmax=7), "thorough": dict(nmax=12)},
           budget={"quick": 200, "thorough": 1200})
def cycles(sx, B):
    """Real _initialize_cylces + MetaMolecule.search_tree + set_restraints on a pure ring whose size, node-key labelling,
    node insertion order and first node are solver-chosen: the declared restraint joins two residues that are adjacent in the ring
    (the closing edge of the walk), with d = 0 and the given tolerance, and the later-placed one gets bounds [-tol, tol + average step]."""
    n = int(sx.int("n", 3, B["nmax"]))
    rot = int(sx.int("first", 0, n - 1))
    flip = sx.sel("insertion", ["ascending", "descending", "interleaved"])
    keyf = sx.sel("keys", ["0..n-1", "offset", "strings"])
    tol = sx.sel("tolerance", [0.0, 0.3])
    key = {"0..n-1": lambda i: i, "offset": lambda i: 10 + 3 * i, "strings": lambda i: "r%02d" % i}[keyf]
    order = list(range(n))
    order = order[rot:] + order[:rot]
    if flip == "descending":
        order = order[:1] + order[1:][::-1]
    elif flip == "interleaved":
        order = order[::2] + order[1::2]
    g = nx.Graph()
    for i in order:
        g.add_node(key(i), resid=i + 1, resname="A")
    for i in order:
        g.add_edge(key(i), key((i + 1) % n))
    from polyply.src.meta_molecule import MetaMolecule
    mol = MetaMolecule(g, mol_name="ring")
    top = make_topology([mol])
    if sx.sel("second_cycle", [False, True]) and n >= 4:
        mol.add_edge(key(0), key(2))
        try:
            gen_coords._initialize_cylces(top, ["ring"], tol)
        except IOError:
            sx.cover("two cycles rejected")
            return
        sx.claim(False, "a molecule with more than one cycle is rejected")
        return
    start = sx.sel("start", ["default", "-start at another residue", "coordinates supplied for some residues"])
    if start == "-start at another residue":
        # what find_starting_node_from_spec does for `-start ring#A-k` before the cycles are initialised
        mol.root = key(int(sx.int("root", 0, n - 1)))
        sx.cover("walk starts elsewhere")
    elif start == "coordinates supplied for some residues":
        # what the coordinate reader leaves behind: residues with coordinates lose their `build` flag and the walk starts at one
        first = int(sx.int("first_with_coords", 0, n - 1))
        for i in range(first, min(n, first + 2)):
            del mol.nodes[key(i)]["build"]
        sx.cover("walk starts elsewhere")
    # (between two residues that are not neighbours in the ring, so that it cannot coincide with the closing pair)
    pre = sx.sel("build_file_restraint", [False, True]) and n >= 4
    if pre:
        # as the build file parser stores it before the cycles are initialised
        top.distance_restraints[("ring", 0)][(key(0), key(n // 2))] = (0.8, 0.1)
        sx.cover("with build-file restraint")
    gen_coords._initialize_cylces(top, ["ring"], tol)
    sx.cover("ring")
    decl = dict(top.distance_restraints[("ring", 0)])
    if pre:
        sx.claim(decl.get((key(0), key(n // 2))) == (0.8, 0.1), "a distance restraint declared in the build file is kept when the ring is declared cyclic",
                 lambda: repr(decl))
        decl.pop((key(0), key(n // 2)), None)
    sx.claim(len(decl) == 1, "one closing restraint per ring")
    if len(decl) != 1:
        return
    (u, v), (d, t) = list(decl.items())[0]
    sx.claim(mol.has_edge(u, v), "the restrained pair is joined by an edge of the ring (the closing edge)",
             lambda: "ring of %d (keys %s, inserted %r): restraint between %r and %r" % (n, keyf, order, u, v))
    sx.claim(d == 0.0 and t == tol, "distance 0 and the given tolerance")
    walk = [list(mol.search_tree.edges)[0][0]] + [e[1] for e in mol.search_tree.edges]
    sx.claim({u, v} == {walk[0], walk[-1]}, "the restrained pair is the first and the last residue of the walk that is actually performed",
             lambda: "walk %r, restraint between %r and %r" % (walk, u, v))
    eng = _engine_for(sx, mol, {"A": 0.5})
    if pre:
        top.distance_restraints[("ring", 0)].pop((key(0), key(n // 2)), None)
    restraints.set_restraints(top, eng)
    tree_order = [list(mol.search_tree.edges)[0][0]] + [e[1] for e in mol.search_tree.edges]
    later, other = (v, u) if tree_order.index(v) > tree_order.index(u) else (u, v)
    got = [x for x in mol.nodes[later].get("distance_restraints", []) if x[0] == other]
    if sx.claim(len(got) == 1, "the later-placed residue of the closing pair carries the bound"):
        sx.claim(abs(got[0][1] - (tol + 0.5)) < 1e-12 and abs(got[0][2] + tol) < 1e-12, "bounds are [-tol, tol + average step]",
                 lambda: repr(got))


# ---------------------------------------------------------------------------------------------------
Spec = collections.namedtuple("Spec", "model lp start stop mol_idxs")


@condition("C07.end_to_end",
           anchors=["polyply.src.persistence:generate_end_end_distances", "polyply.src.persistence:sample_end_to_end_distances",
                    "polyply.src.restraints:set_distance_restraint"],
           rejects=(IOError,), selector_only=True, replay=True, must_cover=["sampled"], allow_all_rejected=False,
           stubs=["np.random.choice (persistence) -> an arbitrary candidate with non-zero probability (solver-chosen index)"],
           outside=["the statistical shape of the sampled distribution"],
           bounds={"quick": dict(nmax=6), "thorough": dict(nmax=10)})
def end_to_end(sx, B):
    """Real sample_end_to_end_distances / generate_end_end_distances with the random choice replaced by a solver-chosen candidate:
    every distance that can be drawn lies in [average step, contour length), and the end residue gets the bounds
    [d, d + average step]."""
    n = int(sx.int("n", 3, B["nmax"]))
    size = sx.sel("size", [0.3, 0.47, 1.0])
    lp = sx.sel("lp", [0.5, 2.0])
    mol = meta_from_shape((n, [(i, i + 1) for i in range(n - 1)]))
    top = make_topology([mol], volumes={"A": size})
    top.persistences = [Spec("WCM", lp, 0, n - 1, [0])]
    eng = _engine_for(sx, mol, {"A": size})
    eng.boxsize = np.array([50.0, 50.0, 50.0])
    chosen = {}

    class NPR:
        @staticmethod
        def seed(s):
            pass

        @staticmethod
        def choice(values, p=None, size=None):
            allowed = [i for i in range(len(values)) if p[i] > 0]
            k = sx.sel("choice", allowed)
            chosen["d"] = float(values[k])
            return np.array([values[k]] * size)

    class NPshim:
        random = NPR

        def __getattr__(self, k):
            return getattr(np, k)

    with patched(persistence, np=NPshim()):
        persistence.sample_end_to_end_distances(top, eng)
    sx.cover("sampled")
    avg, contour = size, size * (n - 1)
    d = chosen["d"]
    sx.claim(avg - 1e-9 <= d < contour, "sampled end-to-end distance lies between one step and the contour length",
             lambda: "d=%r step=%r contour=%r" % (d, avg, contour))
    got = [x for x in mol.nodes[n - 1].get("distance_restraints", []) if x[0] == 0]
    if sx.claim(len(got) == 1, "end residue carries the sampled restraint"):
        sx.claim(abs(got[0][1] - (d + avg)) < 1e-9 and abs(got[0][2] - d) < 1e-9, "bounds are [d, d + average step]", lambda: repr(got))


import harness.C18 as _c18      # noqa: E402


@condition("C07.build_file_selection",
           anchors=["polyply.src.build_file_parser:BuildDirector._tag_nodes", "polyply.src.build_file_parser:BuildDirector.finalize"],
           rejects=(), must_cover=["tagged", "two geometry lines on one residue", "two rw lines", "unordered residues"],
           outside=["molecule indices / residue ids above 6", "more than two directive lines per kind"],
           bounds={"quick": dict(hi=3, molnames=["P", "G"]), "thorough": dict(hi=4, molnames=["P", "G", "S"])},
           budget={"quick": 280, "thorough": 1500})
def build_file_selection(sx, B):
    """'for every residue they select': the restraints the walk enforces are the ones the build-file reader attaches to the residues.
    The C18.build_file_ranges harness (real read_build_file with symbolic molecule-index and residue-id ranges on a topology with
    repeated molecule names, residues of other names inside the ranges and residues stored out of residue-id order): a residue
    carries exactly the geometric restraints and growth-direction restrictions whose ranges and names select it."""
    _c18.build_file_ranges(sx, B)


import harness.C05 as _c05      # noqa: E402


@condition("C07.own_restraints",
           anchors=["polyply.src.random_walk:RandomWalk.update_positions"],
           must_cover=["placed", "gave up"],
           stubs=["as C05.acceptance"],
           bounds={"quick": dict(maxiter=[0, 1, 2]), "thorough": dict(maxiter=[0, 1, 2, 3, 4])})
def own_restraints(sx, B):
    """'declared for it': the C05.acceptance harness (real update_positions, every predicate outcome a symbolic boolean) with
    different declarations on each residue: the geometric-restraint and growth-direction predicates are evaluated with the
    declarations of the residue being placed, on the trial point, measured from the residue it is grown from, and a point is
    accepted only if both hold."""
    _c05.acceptance(sx, B)


@condition("C07.cycles_all_copies",
           anchors=["polyply.src.gen_coords:_initialize_cylces", "polyply.src.top_parser:TOPDirector.finalize"],
           rejects=(), selector_only=True, must_cover=["name on two lines"],
           outside=["rings other than the four-residue ring"],
           bounds={"quick": dict(), "thorough": dict()})
def cycles_all_copies(sx, B):
    """A molecule type declared cyclic gets its closing restraint in *every* copy, also when its name stands on more than one line
    of [ molecules ]: real topology reader + _initialize_cylces on solver-chosen [ molecules ] lists."""
    from harness.common import top_text, topology_from_text, moltype_text
    layout = sx.sel("molecules", [[("RING", 1), ("SOL", 2), ("RING", 1)], [("RING", 2)], [("SOL", 1), ("RING", 1), ("SOL", 1), ("RING", 2)]])
    if [nm for nm, _ in layout].count("RING") > 1:
        sx.cover("name on two lines")
    ring = moltype_text("RING", [("A", ["a1"])] * 4, bonds=[(1, 2), (2, 3), (3, 4), (4, 1)])
    top = topology_from_text(top_text({"RING": ring, "SOL": [("S", ["s1"])]}, layout))
    tol = sx.sel("tolerance", [0.0, 0.2])
    gen_coords._initialize_cylces(top, ["RING"], tol)
    for mi, mol in enumerate(top.molecules):
        decl = dict(top.distance_restraints.get((mol.mol_name, mi), {})) if hasattr(top.distance_restraints, "get") else {}
        if mol.mol_name == "RING":
            sx.claim(len(decl) == 1 and list(decl.values())[0] == (0.0, tol), "every copy of the cyclic molecule type carries one closing restraint",
                     lambda: "molecule %d of %r: %r" % (mi, layout, decl))
        else:
            sx.claim(not decl, "other molecules carry none")
