"""Helpers shared by harness modules: tiny topologies of real polyply objects."""
import numpy as np
import networkx as nx
import vermouth
import vermouth.forcefield
from polyply.src.meta_molecule import MetaMolecule
from polyply.src.topology import Topology

SHAPES = {
    "path2": (2, [(0, 1)]),
    "path3": (3, [(0, 1), (1, 2)]),
    "path4": (4, [(0, 1), (1, 2), (2, 3)]),
    "path5": (5, [(0, 1), (1, 2), (2, 3), (3, 4)]),
    "path6": (6, [(i, i + 1) for i in range(5)]),
    "path7": (7, [(i, i + 1) for i in range(6)]),
    "path12": (12, [(i, i + 1) for i in range(11)]),
    "star4": (4, [(0, 1), (0, 2), (0, 3)]),
    "star4b": (4, [(1, 0), (1, 2), (1, 3)]),
    "comb5": (5, [(0, 1), (1, 2), (2, 3), (1, 4)]),
    "comb6": (6, [(0, 1), (1, 2), (2, 3), (1, 4), (2, 5)]),
    "ring3": (3, [(0, 1), (1, 2), (2, 0)]),
    "ring4": (4, [(0, 1), (1, 2), (2, 3), (3, 0)]),
    "ring5": (5, [(0, 1), (1, 2), (2, 3), (3, 4), (4, 0)]),
    "single": (1, []),
}


def meta_from_shape(shape, mol_name="M", resnames=None, ff=None, keys=None):
    n, edges = SHAPES[shape] if isinstance(shape, str) else shape
    keys = keys or list(range(n))
    g = nx.Graph()
    for i in range(n):
        g.add_node(keys[i], resid=i + 1, resname=(resnames[i] if resnames else "A"))
    g.add_edges_from((keys[a], keys[b]) for a, b in edges)
    return MetaMolecule(g, force_field=ff, mol_name=mol_name)


def make_topology(metas, volumes=None):
    ff = vermouth.forcefield.ForceField(name="pverif")
    top = Topology(force_field=ff)
    top.molecules = list(metas)
    for idx, m in enumerate(metas):
        top.mol_idx_by_name[m.mol_name].append(idx)
    top.volumes = dict(volumes or {})
    for m in metas:
        for node in m.nodes:
            top.volumes.setdefault(m.nodes[node]["resname"], 0.5)
    return top


def sentinel(k, box=(10.0, 10.0, 10.0)):
    """k-th distinct point well inside the box, all pairwise >= 0.6 nm apart for k < 512"""
    return np.array([0.7 + 0.9 * (k % 8), 0.7 + 0.9 * ((k // 8) % 8), 0.7 + 0.9 * ((k // 64) % 8)])


def engine_views_consistent(eng):
    """the four views of NonBondEngine agree; returns (ok, message)"""
    finite = set(int(i) for i in np.where(np.isfinite(eng.positions[:, 0]))[0])
    all_finite_rows = set(int(i) for i in np.where(np.all(np.isfinite(eng.positions), axis=1))[0])
    if finite != all_finite_rows:
        return False, "partially finite rows"
    if set(eng.gndx_to_tree) != finite:
        return False, "gndx_to_tree keys %s != finite rows %s" % (sorted(eng.gndx_to_tree), sorted(finite))
    seen = []
    for ti, (tree, idxs) in enumerate(zip(eng.position_trees, eng.defined_idxs)):
        if tree.n != len(idxs):
            return False, "tree %d has %d points for %d indices" % (ti, tree.n, len(idxs))
        for k, g in enumerate(idxs):
            if eng.gndx_to_tree.get(g) != ti:
                return False, "index %d listed in tree %d but mapped to %s" % (g, ti, eng.gndx_to_tree.get(g))
            if not np.array_equal(tree.data[k], eng.positions[g]):
                return False, "tree %d row %d differs from positions[%d]" % (ti, k, g)
        seen.extend(int(g) for g in idxs)
    if len(seen) != len(set(seen)):
        return False, "an index is listed twice in the trees"
    if set(seen) != finite:
        return False, "tree indices %s != finite rows %s" % (sorted(seen), sorted(finite))
    return True, ""


# ---- topologies through the real reader -------------------------------------------------------------
def moltype_text(name, residues, nrexcl=1, bonds=None, mass=True):
    """residues: list of (resname, [atom names][, resid]); atoms are bonded linearly (also across residues) unless `bonds` given"""
    lines = ["[ moleculetype ]", "%s %d" % (name, nrexcl), "[ atoms ]"]
    idx = 0
    for r, item in enumerate(residues):
        resname, atoms = item[:2]
        resid = item[2] if len(item) > 2 else r + 1       # optional explicit residue number (numbering that restarts)
        for a in atoms:
            idx += 1
            lines.append("%d T%s %d %s %s %d 0.0%s" % (idx, resname, resid, resname, a, idx, " 36.0" if mass else ""))
    if bonds is None:
        bonds = [(i, i + 1) for i in range(1, idx)]
    if bonds:
        lines.append("[ bonds ]")
        for a, b in bonds:
            lines.append("%d %d 1 0.35 1000" % (a, b))
    return "\n".join(lines)


def top_text(moltypes, molecules, atomtypes=("A", "B", "C", "S")):
    """moltypes: dict name -> residues (see moltype_text) or ready text; molecules: list of (name, count)"""
    out = ["[ defaults ]", "1 1 no 1.0 1.0", "[ atomtypes ]"]
    for t in atomtypes:
        out.append("T%s 36.0 0.0 A 0.47 2.0" % t)
    for name, spec in moltypes.items():
        out.append(spec if isinstance(spec, str) else moltype_text(name, spec))
    out += ["[ system ]", "pverif", "[ molecules ]"]
    out += ["%s %d" % (n, c) for n, c in molecules]
    return "\n".join(out) + "\n"


def topology_from_text(text, name="pverif"):
    from polyply.src.top_parser import read_topology
    ff = vermouth.forcefield.ForceField(name=name)
    top = Topology(ff, name=name)
    read_topology(text.split("\n"), top)
    return top
