"""C12 - Sequence inputs produce exactly the specified residue graph."""
import os
import json
import shutil
import tempfile
from pathlib import Path
import networkx as nx
from pverif.harness import condition, patched
from pverif import symx
import polyply.src.simple_seq_parsers as ssp
from polyply.src.simple_seq_parsers import FileFormatError
from polyply.src.meta_molecule import MetaMolecule
import polyply.src.gen_itp as gen_itp
import polyply.src.gen_seq as gen_seq_mod

# ---- independent tables (Appendix B of DESIGN.md) -------------------------------------------------
DNA = dict(zip("ACGT", ["DA", "DC", "DG", "DT"]))
RNA = dict(zip("ACGT", ["A", "C", "G", "U"]))
AA = {"G": "GLY", "A": "ALA", "V": "VAL", "C": "CYS", "P": "PRO", "L": "LEU", "I": "ILE", "M": "MET", "W": "TRP",
      "F": "PHE", "S": "SER", "T": "THR", "Y": "TYR", "N": "ASN", "Q": "GLN", "K": "LYS", "R": "ARG", "H": "HIS",
      "D": "ASP", "E": "GLU", "O": "HYP"}
KIND = {"DNA": DNA, "RNA": RNA, "PROTEIN": AA}
UPPER = [chr(c) for c in range(ord("A"), ord("Z") + 1)]
ALPHA_Q = list("ACGTUVWOBXZ") + ["a", "*"]
ALPHA_T = UPPER + ["a", "t", "1", "*", "-"]


def expected_names(letters, kind, circular=False):
    table = KIND[kind]
    if any(c not in table for c in letters):
        return None
    names = [table[c] for c in letters]
    if kind in ("DNA", "RNA") and not circular:
        names[0] = names[0] + "5"
        names[-1] = names[-1] + "3"
    return names


def check_linear_graph(sx, g, names, circular=False, what="", names_defined=True):
    """g is the graph (or MetaMolecule) produced by the code; names the expected residue names in order"""
    nodes = list(g.nodes)
    if not sx.claim(len(nodes) == len(names), "one residue per sequence element",
                    lambda: "%s: %d nodes for %d elements %r" % (what, len(nodes), len(names), names)):
        return
    resids = sorted(g.nodes[k].get("resid") for k in nodes)
    if not sx.claim(resids == list(range(1, len(names) + 1)), "residues numbered consecutively from 1", lambda: "%r" % resids):
        return
    by_resid = {g.nodes[k]["resid"]: k for k in nodes}
    got = [g.nodes[by_resid[r]].get("resname") for r in range(1, len(names) + 1)]
    if names_defined:
        sx.claim(got == names, "residue names in input order", lambda: "%s: %r expected %r" % (what, got, names))
    want = set(frozenset((by_resid[r], by_resid[r + 1])) for r in range(1, len(names)))
    if circular:
        want.add(frozenset((by_resid[1], by_resid[len(names)])))
    gote = set(frozenset(e) for e in g.edges)
    sx.claim(gote == want, "linear connectivity (plus closing edge if circular)",
             lambda: "%s: edges %r expected %r" % (what, sorted(map(sorted, gote)), sorted(map(sorted, want))))
    if circular:
        e = (by_resid[1], by_resid[len(names)])
        sx.claim(g.edges[e].get("linktype") == "circle", "closing edge labelled as circular")
        sx.claim(all("linktype" not in g.edges[x] for x in g.edges if frozenset(x) != frozenset(e)), "only the closing edge is labelled")


class _Tmp:
    def __enter__(self):
        base = os.environ.get("TMPDIR") or tempfile.gettempdir()
        self.d = tempfile.mkdtemp(prefix="pverif_", dir=base)
        return Path(self.d)

    def __exit__(self, *a):
        shutil.rmtree(self.d, ignore_errors=True)


@condition("C12.plain",
           anchors=["polyply.src.simple_seq_parsers:_parse_plain", "polyply.src.simple_seq_parsers:_monomers_to_linear_nx_graph"],
           selector_only=True, must_cover=["accepted", "rejected", "single"],
           outside=["characters outside the stated alphabet", "sequences longer than the bound", "the name of a single nucleotide that is both 5' and 3' end"],
           bounds={"quick": dict(nmax=3, alpha=ALPHA_Q), "thorough": dict(nmax=3, alpha=ALPHA_T)},
           budget={"quick": 200, "thorough": 1500})
def plain(sx, B):
    """Real _parse_plain on a one-letter sequence whose length (1..nmax) and every character (selector over upper-case letters
    and a few non-letters) are solver variables, split over 1-2 lines at a symbolic position, for each alphabet flag.
    Oracle: IUPAC tables written independently."""
    n = int(sx.int("n", 1, B["nmax"]))
    kind = sx.sel("kind", ["DNA", "RNA", "PROTEIN"])
    letters = [sx.sel("c%d" % i, B["alpha"]) for i in range(n)]
    cut = int(sx.int("cut", 0, n))
    s = "".join(letters)
    lines = [s[:cut] + "\n", s[cut:] + "\n"] if 0 < cut < n else ([s] if cut == 0 else [s + "\n", "\n"])
    want = expected_names(letters, kind)
    try:
        g = ssp._parse_plain(lines, DNA=kind == "DNA", RNA=kind == "RNA", AA=kind == "PROTEIN")
    except IOError as err:
        sx.claim(want is None, "only unknown letters are rejected", lambda: "%r (%s) rejected: %s" % (s, kind, err))
        sx.cover("rejected")
        return
    sx.claim(want is not None, "unknown letters are rejected", lambda: "%r (%s) accepted" % (s, kind))
    sx.cover("accepted")
    if n == 1:
        sx.cover("single")
    # the terminal naming of a single nucleotide (both 5' and 3' end) is not defined by the statement
    check_linear_graph(sx, MetaMolecule(g, mol_name="x"), want, what="%r/%s" % (s, kind),
                       names_defined=not (n == 1 and kind != "PROTEIN"))


@condition("C12.files",
           anchors=["polyply.src.simple_seq_parsers:parse_ig", "polyply.src.simple_seq_parsers:parse_fasta",
                    "polyply.src.simple_seq_parsers:_parse_plain_delimited", "polyply.src.simple_seq_parsers:_identify_residues",
                    "polyply.src.meta_molecule:MetaMolecule.from_sequence_file"],
           rejects=(), selector_only=True, must_cover=["ig linear", "ig circular", "fasta", "txt", "protein sequence spelling DNA/RNA", "fasta with a second record"],
           outside=[".txt files with blank lines or several spaces between names (the statement restricts .txt to single-space separated)",
                    "more than one sequence per file", "circular sequences shorter than 3"],
           bounds={"quick": dict(nmax=3, alpha=list("ACGTV"), names=["PEO", "PS", "A"]),
                   "thorough": dict(nmax=4, alpha=list("ACGTVOX"), names=["PEO", "PS", "A", "DA5"])},
           budget={"quick": 200, "thorough": 1500})
def files(sx, B):
    """Real MetaMolecule.from_sequence_file on .ig/.fasta/.txt files written into a per-path temp directory: sequence letters /
    residue names, line breaks, comment lines, terminator 1 (linear) / 2 (circular) are solver-chosen."""
    fmt = sx.sel("format", ["ig", "fasta", "txt"])
    n = int(sx.int("n", 1, B["nmax"]))
    cut = int(sx.int("cut", 0, n - 1)) if n > 1 else 0
    with _Tmp() as d:
        if fmt == "txt":
            names = [sx.sel("r%d" % i, B["names"]) for i in range(n)]
            text = " ".join(names[:cut]) + ("\n" if cut else "") + " ".join(names[cut:]) + sx.sel("eol", ["", "\n"])
            p = d / "seq.txt"
            p.write_text(text)
            m = MetaMolecule.from_sequence_file(None, p, "x")
            sx.cover("txt")
            check_linear_graph(sx, m, names, what=repr(text))
            return
        kind = sx.sel("kind", ["DNA", "RNA", "PROTEIN"])
        word = sx.sel("protein_word", [None, "DNA", "RNA", "GRNAD"]) if kind == "PROTEIN" else None
        if word is not None:
            # a protein sequence whose letters happen to spell the keyword of another molecule kind
            letters = list(word)
            cut = min(cut, len(letters) - 1)
            n = len(letters)
            sx.cover("protein sequence spelling DNA/RNA")
        else:
            letters = [sx.sel("c%d" % i, B["alpha"]) for i in range(n)]
        s = "".join(letters)
        body = (s[:cut] + "\n" + s[cut:]) if cut else s
        if fmt == "ig":
            ter = sx.sel("ter", ["1", "2"]) if n >= 3 else "1"
            circular = ter == "2"
            text = "; a %s sequence\n; second comment\ntitle line\n%s%s\n" % (kind, body, ter)
            p = d / "seq.ig"
        else:
            circular = False
            text = "> my %s\n%s\n" % (kind, body)
            if sx.sel("second_record", [False, True]):
                # only the first record of a .fasta file is used
                text += "> another record\n%s\n" % ("".join(letters[:2]) or "A")
                sx.cover("fasta with a second record")
            p = d / "seq.fasta"
        p.write_text(text)
        want = expected_names(letters, kind, circular)
        try:
            m = MetaMolecule.from_sequence_file(None, p, "x")
        except IOError as err:
            sx.claim(want is None, "only unknown letters are rejected", lambda: "%r rejected: %s" % (text, err))
            return
        sx.claim(want is not None, "unknown letters are rejected", lambda: "%r accepted" % text)
        sx.cover("fasta" if fmt == "fasta" else ("ig circular" if circular else "ig linear"))
        check_linear_graph(sx, m, want, circular, what=repr(text), names_defined=not (n == 1 and kind != "PROTEIN"))


@condition("C12.linear",
           anchors=["polyply.src.gen_itp:split_seq_string", "polyply.src.meta_molecule:MetaMolecule.from_monomer_seq_linear",
                    "polyply.src.meta_molecule:MetaMolecule.add_monomer"],
           selector_only=True, must_cover=["built"],
           outside=["more than 3 blocks, counts above the bound"],
           bounds={"quick": dict(blocks=3, cmax=3, names=["PEO", "PS"]), "thorough": dict(blocks=3, cmax=5, names=["PEO", "PS", "A"])})
def linear(sx, B):
    """Real split_seq_string + MetaMolecule.from_monomer_seq_linear for -seq lists of up to 3 `name:count` blocks, counts
    symbolic (rendered into the option string, hence forked over their whole range)."""
    nb = int(sx.int("nblocks", 1, B["blocks"]))
    seq, want = [], []
    for b in range(nb):
        name = sx.sel("name%d" % b, B["names"])
        cnt = int(sx.int("count%d" % b, 0, B["cmax"]))
        seq.append("%s:%d" % (name, cnt))
        want += [name] * cnt
    sx.assume(len(want) >= 1)
    mons = gen_itp.split_seq_string(seq)
    m = MetaMolecule.from_monomer_seq_linear(None, mons, "x")
    sx.cover("built")
    check_linear_graph(sx, m, want, what=repr(seq))


def _tree_edges(b, levels):
    size = sum(b ** i for i in range(levels))
    return size, [((i - 1) // b, i) for i in range(1, size)]


@condition("C12.genseq",
           anchors=["polyply.src.gen_seq:gen_seq", "polyply.src.gen_seq:generate_seq_graph", "polyply.src.gen_seq:_add_edges",
                    "polyply.src.gen_seq:_apply_termini_modifications", "polyply.src.gen_seq:_tag_nodes",
                    "polyply.src.gen_seq:_branched_graph", "polyply.src.simple_seq_parsers:parse_json"],
           rejects=(), selector_only=True, must_cover=["read back", "connect", "termini", "tag", "connect record with two pairs", "connect record naming the later block first"],
           outside=["residue mixes with probabilities below 1 (statistical)", "macros from files", "more than 3 macros in a sequence"],
           bounds={"quick": dict(levels=(1, 2), bf=(1, 2), seqlen=2), "thorough": dict(levels=(1, 3), bf=(1, 2), seqlen=2)},
           budget={"quick": 200, "thorough": 1500})
def genseq(sx, B):
    """Real gen_seq (MacroString, _branched_graph, generate_seq_graph, _add_edges, _apply_termini_modifications, _tag_nodes) writes
    a .json that real parse_json/MetaMolecule.from_sequence_file reads back. Macro levels/branching, the macro sequence, connect
    records, termini renaming and labels are solver-chosen. Oracle: closed-form tree (parent of i is (i-1)//b), disjoint-union offsets."""
    macros = {}
    defs = []
    for tag, res in (("A", "PEO"), ("B", "PS")):
        lv = int(sx.int("levels" + tag, *B["levels"]))
        bf = int(sx.int("bf" + tag, *B["bf"]))
        macros[tag] = (lv, bf, res)
        defs.append("%s:%d:%d:%s-1.0" % (tag, lv, bf, res))
    L = int(sx.int("seqlen", 1, B["seqlen"]))
    seq = [sx.sel("s%d" % i, ["A", "B"]) for i in range(L)]
    # expected graph
    names, edges, seqid, offs = [], set(), [], []
    for i, tag in enumerate(seq):
        lv, bf, res = macros[tag]
        size, te = _tree_edges(bf, lv)
        off = len(names)
        offs.append((off, size))
        names += [res] * size
        seqid += [i] * size
        edges |= set(frozenset((off + a, off + c)) for a, c in te)
    connects = []
    for i in range(L - 1):
        if sx.sel("connect%d" % i, [True, False]):
            a = int(sx.int("ca%d" % i, 0, offs[i][1] - 1))
            c = int(sx.int("cb%d" % i, 0, offs[i + 1][1] - 1))
            rec = "%d:%d:%d-%d" % (i, i + 1, a, c)
            edges.add(frozenset((offs[i][0] + a, offs[i + 1][0] + c)))
            if sx.sel("second_pair%d" % i, [False, True]):
                # one connect record may list several residue pairs
                a2 = int(sx.int("ca2_%d" % i, 0, offs[i][1] - 1))
                c2 = int(sx.int("cb2_%d" % i, 0, offs[i + 1][1] - 1))
                rec += ",%d-%d" % (a2, c2)
                edges.add(frozenset((offs[i][0] + a2, offs[i + 1][0] + c2)))
                sx.cover("connect record with two pairs")
            if sx.sel("later_block_first%d" % i, [False, True]):
                # a record may name the later block first; its residue pairs are then given in that order too
                pairs = [q.split("-") for q in rec.split(":")[2].split(",")]
                rec = "%d:%d:%s" % (i + 1, i, ",".join("%s-%s" % (q[1], q[0]) for q in pairs))
                sx.cover("connect record naming the later block first")
            connects.append(rec)
            sx.cover("connect")
    mods = []
    if sx.sel("termini", [False, True]):
        blk = int(sx.int("modblock", 0, L - 1))
        mods.append("%d:END" % blk)
        deg = {k: 0 for k in range(len(names))}
        for e in edges:
            for k in e:
                deg[k] += 1
        for k in range(len(names)):
            if seqid[k] == blk and deg[k] == 1:
                names[k] = "END"
        sx.cover("termini")
    tags = []
    tagged = {}
    if sx.sel("tag", [False, True]):
        blk = int(sx.int("tagblock", 0, L - 1))
        tags.append("%d:chiral:R-1.0" % blk)
        tagged = {k: "R" for k in range(len(names)) if seqid[k] == blk}
        sx.cover("tag")
    with _Tmp() as d:
        out = d / "seq.json"
        gen_seq_mod.gen_seq("x", out, seq, macro_strings=defs, connects=connects, modifications=mods, tags=tags)
        m = MetaMolecule.from_sequence_file(None, out, "x")
    sx.cover("read back")
    sx.claim(len(m.nodes) == len(names), "one residue per macro node", lambda: "%d vs %d" % (len(m.nodes), len(names)))
    sx.claim(list(m.nodes) == list(range(len(names))), "nodes in input order")
    sx.claim(all(m.nodes[k]["resid"] == k + 1 for k in m.nodes), "residues numbered consecutively from 1")
    got = [m.nodes[k].get("resname") for k in sorted(m.nodes)]
    sx.claim(got == names, "residue names incl. renamed termini", lambda: "%r expected %r (defs %r seq %r connects %r mods %r)" % (got, names, defs, seq, connects, mods))
    gote = set(frozenset(e) for e in m.edges)
    sx.claim(gote == edges, "edges as macro trees and connect records dictate",
             lambda: "%r expected %r" % (sorted(map(sorted, gote)), sorted(map(sorted, edges))))
    sx.claim(all(m.nodes[k].get("chiral") == tagged.get(k) for k in m.nodes), "labels on exactly the tagged block",
             lambda: "%r" % {k: m.nodes[k].get("chiral") for k in m.nodes})



@condition("C12.plain_strings", engine="crosshair",
           anchors=["polyply.src.simple_seq_parsers:_parse_plain"],
           must_cover=["plain_dna"],
           cfg={"module": "chx/c12_plain.py", "functions": {"quick": ["plain_dna"], "thorough": ["plain_dna", "plain_protein"]},
                "timeout": {"quick": 120, "thorough": 400}},
           outside=["sequences longer than 3 (DNA) / 2 (protein) characters", "leading/trailing white space (stripped by the reader)"],
           bounds={"quick": dict(dna_len=3), "thorough": dict(dna_len=3, protein_len=2)})
def plain_strings(sx, B):
    """Engine B (CrossHair, z3 string theory): real _parse_plain on a one-letter sequence of arbitrary characters: sequences over
    the alphabet give exactly the translated names (with 5'/3' suffixes), resids and linear edges; any other character is rejected."""
    raise NotImplementedError("run by pverif.chx")


MACRO_FF = """[ moleculetype ]
TRI 1
[ atoms ]
1 TA 1 RA a1 1 0.0 36.0
2 TB 2 RB b1 2 0.0 36.0
3 TA 3 RA a1 3 0.0 36.0
4 TC 4 RC c1 4 0.0 36.0
[ bonds ]
a1 b1 1 0.3 100
2 4 1 0.3 100
2 3 1 0.3 100
"""
MACRO_ITP = """[ moleculetype ]
TRI 1
[ atoms ]
1 TA 1 RA a1 1 0.0 36.0
2 TB 2 RB b1 2 0.0 36.0
3 TA 3 RA a1 3 0.0 36.0
4 TC 4 RC c1 4 0.0 36.0
[ bonds ]
1 2 1 0.3 100
2 4 1 0.3 100
2 3 1 0.3 100
"""


@condition("C12.genseq_from_file",
           anchors=["polyply.src.gen_seq:gen_seq", "polyply.src.gen_seq:MacroFile.gen_graph", "polyply.src.gen_seq:generate_seq_graph"],
           rejects=(), selector_only=True, must_cover=["read back", "file macro twice"],
           outside=["macro files with more than one molecule"],
           bounds={"quick": dict(), "thorough": dict()})
def genseq_from_file(sx, B):
    """Real gen_seq with a macro taken from a molecule file (a branched four-residue molecule in .itp syntax) combined with a string
    macro in a solver-chosen sequence and connect record: the .json read back by the real reader has the residues of every macro
    instance in order (names from the molecule's residues), the branched connectivity of the file macro, the connect edges, and
    consecutive residue ids."""
    seq = sx.sel("sequence", [["F"], ["F", "S"], ["S", "F"], ["F", "F"], ["S", "F", "S"]])
    connect = sx.sel("connect", [False, True]) if len(seq) > 1 else False
    with _Tmp() as d:
        (d / "tri.itp").write_text(MACRO_ITP)
        names, edges, offs = [], set(), []
        for tag in seq:
            off = len(names)
            if tag == "F":
                names += ["RA", "RB", "RA", "RC"]
                edges |= {frozenset((off, off + 1)), frozenset((off + 1, off + 2)), frozenset((off + 1, off + 3))}
                offs.append((off, 4))
            else:
                names += ["PEO", "PEO"]
                edges.add(frozenset((off, off + 1)))
                offs.append((off, 2))
        connects = []
        if connect:
            a = sx.sel("from_residue", list(range(offs[0][1])))
            connects.append("0:1:%d-0" % a)
            edges.add(frozenset((offs[0][0] + a, offs[1][0])))
        if seq.count("F") == 2:
            sx.cover("file macro twice")
        out = d / "seq.json"
        gen_seq_mod.gen_seq("x", out, seq, inpath=[d / "tri.itp"], from_file=["F:TRI"], macro_strings=["S:2:1:PEO-1.0"], connects=connects)
        m = MetaMolecule.from_sequence_file(None, out, "x")
    sx.cover("read back")
    got = [m.nodes[k].get("resname") for k in sorted(m.nodes)]
    sx.claim(got == names, "residues of every macro instance in sequence order", lambda: "%r: %r expected %r" % (seq, got, names))
    sx.claim(all(m.nodes[k]["resid"] == k + 1 for k in m.nodes) and list(m.nodes) == list(range(len(names))), "residues numbered consecutively from 1 in input order")
    gote = set(frozenset(e) for e in m.edges)
    sx.claim(gote == edges, "connectivity of the file macro and the connect records", lambda: "%r: %r expected %r" % (seq, sorted(map(sorted, gote)), sorted(map(sorted, edges))))
