"""C09 - Parameters are resolved as GROMACS preprocessing would resolve them."""
import itertools
from pverif.harness import condition, patched
from pverif import symx
import vermouth.forcefield
import polyply.src.topology as topmod
from polyply.src.topology import Topology, match_dihedral_interaction_types
from polyply.src.top_parser import read_topology


# ---- independent oracle (Appendix B): least-wildcarded entry matching forwards or backwards ------------
def matches(entry, atoms):
    return all(e == "X" or e == a for e, a in zip(entry, atoms))


def least_wildcarded(atoms, entries):
    cands = [e for e in entries if matches(e, atoms) or matches(e, atoms[::-1])]
    if not cands:
        return []
    best = min(e.count("X") for e in cands)
    return [e for e in cands if e.count("X") == best]


MASKS = list(itertools.product([False, True], repeat=4))


def entry_from(atoms_like, mask):
    return tuple("X" if m else a for a, m in zip(atoms_like, mask))


@condition("C09.dihedral_match",
           anchors=["polyply.src.topology:match_dihedral_interaction_types", "polyply.src.topology:_wildcard_dih"],
           selector_only=True, must_cover=["match", "no match"],
           outside=["more than two competing table entries (thorough: three)", "tie-breaking among equally specific entries (left open by the statement)"],
           bounds={"quick": dict(types="AB", nentries=2, etypes="AB"), "thorough": dict(types="ABC", nentries=2, etypes="AB")},
           budget={"quick": 200, "thorough": 1500})
def dihedral_match(sx, B):
    """Real match_dihedral_interaction_types: the four atom types (selectors), and a table of entries each an arbitrary type
    or wildcard per position (all 16 masks), are solver variables. Oracle: set of least-wildcarded entries matching the atoms
    forwards or backwards; claims: the winner is in that set, None iff no entry matches, and the winner does not depend on the
    direction in which the atoms are listed when the set is a singleton."""
    T = list(B["types"])
    atoms = tuple(sx.sel("a%d" % i, T) for i in range(4))
    entries = []
    for e in range(B["nentries"]):
        entries.append(tuple(sx.sel("e%d_%d" % (e, i), list(B["etypes"]) + ["X"]) for i in range(4)))
    table = {}
    for k, e in enumerate(entries):
        table.setdefault(e, [([str(k)], None)])
    want = least_wildcarded(atoms, list(table))
    got_f = match_dihedral_interaction_types(atoms, table)
    got_r = match_dihedral_interaction_types(atoms[::-1], table)
    what = lambda: "atoms %r table %r: forward %r reversed %r expected one of %r" % (atoms, list(table), got_f, got_r, want)
    if not want:
        sx.cover("no match")
        sx.claim(got_f is None and got_r is None, "no entry matches: no result", what)
        return
    sx.cover("match")
    sx.claim(got_f in want, "least-wildcarded matching entry wins (atoms as listed)", what)
    sx.claim(got_r in want, "least-wildcarded matching entry wins (atoms listed backwards)", what)
    if len(want) == 1:
        sx.claim(got_f == got_r, "result independent of listing direction", what)


TOP = """[ defaults ]
1 {comb} {genpairs} 1.0 1.0
[ atomtypes ]
{atomtypes}
{nonbond}
[ bondtypes ]
{bondtypes}
[ constrainttypes ]
{constrainttypes}
[ angletypes ]
{angletypes}
[ dihedraltypes ]
{dihtypes}
{defines}
[ moleculetype ]
molA 1
[ atoms ]
{atomsA}
[ bonds ]
{bondsA}
{bondsExtra}
[ angles ]
{anglesA}
[ dihedrals ]
{dihsA}
[ moleculetype ]
molB 1
[ atoms ]
{atomsA}
[ constraints ]
{bondsA}
[ dihedrals ]
{dihsA}
[ system ]
test
[ molecules ]
{molecules}
"""


def _render(atoms, dih_entries, direction, counts, opls, use_define, bond_rev):
    tnames = sorted(set(atoms) | {"A", "B", "C"})
    at_lines = []
    for t in tnames:
        if opls:
            at_lines.append("%s b%s 6 12.0 0.0 A 0.3 0.5" % (t, t))
        else:
            at_lines.append("%s 12.0 0.0 A 0.3 0.5" % t)
    bt = (lambda t: "b" + t if t != "X" else "X") if opls else (lambda t: t)
    dih_lines = []
    for k, (entry, nterms) in enumerate(dih_entries):
        for term in range(nterms):
            dih_lines.append("%s 9 %d.0 %d.5 %d" % (" ".join(bt(x) for x in entry), 10 * k + term, k, term + 1))
    b01 = (atoms[1], atoms[0]) if bond_rev else (atoms[0], atoms[1])
    bond_lines = ["%s %s 1 0.47 1250" % (bt(b01[0]), bt(b01[1]))]
    ang = (atoms[2], atoms[1], atoms[0]) if bond_rev else (atoms[0], atoms[1], atoms[2])
    # "twice": the same macro occurs more than once in one parameter list, in a type table and in the molecule itself
    angle_lines = ["%s 2 %s %s" % (" ".join(bt(x) for x in ang), "ang_k" if use_define == "twice" else "120", "ang_k" if use_define else "45")]
    # a macro may be defined more than once: the latest definition before its use counts (as for the GROMACS preprocessor)
    defines = {False: "", True: "#define ang_k 77.0\n", "twice": "#define ang_k 77.0\n", "redefined": "#define ang_k 55.5\n#define  ang_k\t77.0\n"}[use_define]
    # a macro may also stand for the whole parameter list including the function type (GROMOS style: `3 4 gb_21`)
    bonds_extra = ("3 4 1 ang_k ang_k" if use_define == "twice" else "3 4 gb_x") if use_define else ""
    if use_define:
        defines += "#define gb_x 1 0.153 7150000.0\n"
    atomsA = "\n".join("%d %s 1 RES a%d %d 0.0" % (i + 1, atoms[i], i + 1, i + 1) for i in range(4))
    order = "1 2 3 4" if direction == 0 else "4 3 2 1"
    mols = "\n".join("%s %d" % (n, c) for n, c in counts)
    text = TOP.format(comb=1, genpairs="no", atomtypes="\n".join(at_lines), nonbond="", bondtypes="\n".join(bond_lines),
                      constrainttypes="%s %s 2 0.1111" % (bt(b01[0]), bt(b01[1])), angletypes="\n".join(angle_lines), dihtypes="\n".join(dih_lines), defines=defines, atomsA=atomsA,
                      bondsA="1 2 1", bondsExtra=bonds_extra, anglesA="1 2 3 2", dihsA=order + " 9", molecules=mols)
    if opls:
        text = "#define _FF_OPLS\n" + text
    return text


LAYOUTS = [[("molA", 1), ("molB", 1)], [("molA", 1), ("molB", 2), ("molA", 1)], [("molA", 0), ("molB", 1), ("molA", 2)],
           [("molB", 3)], [("molA", 2), ("molB", 0), ("molA", 1), ("molB", 1)]]


def _run_bonded(sx, atoms, ents, direction, counts, opls, use_define, bond_rev):
    text = _render(atoms, ents, direction, counts, opls, use_define, bond_rev)
    ff = vermouth.forcefield.ForceField(name="t")
    top = Topology(ff)
    want = least_wildcarded(atoms, [e for e, _ in ents])
    what = lambda: "atoms %r listed %s; table %r; molecules %r; expected %r" % (
        atoms, "forwards" if direction == 0 else "backwards", ents, counts, want)
    try:
        read_topology(text.split("\n"), top)
        top.preprocess()
    except OSError as err:
        sx.cover("unresolved")
        sx.claim(not want, "error only if no bonded type matches", lambda: what() + " raised %s" % err)
        return
    sx.claim(bool(want), "error if no bonded type matches", what)
    sx.cover("resolved")
    if opls:
        sx.cover("opls")
    nterm_of = dict(ents)
    idx_of = {e: k for k, (e, _) in enumerate(ents)}
    total = sum(c for _, c in counts)
    sx.claim(len(top.molecules) == total, "one molecule per [ molecules ] instance")
    for mi, mol in enumerate(top.molecules):
        dihs = mol.molecule.interactions.get("dihedrals", [])
        got = sorted((p.parameters for p in dihs), key=lambda x: x[1])
        ok_any = False
        for w in want:
            k = idx_of[w]
            exp = [["9", "%d.0" % (10 * k + t), "%d.5" % k, "%d" % (t + 1)] for t in range(nterm_of[w])]
            if got == exp:
                ok_any = True
                if nterm_of[w] > 1:
                    sx.cover("multi-term")
        sx.claim(ok_any, "every instance carries all terms of the least-wildcarded matching dihedral type exactly once",
                 lambda: what() + " instance %d (%s) has %r" % (mi, mol.mol_name, got))
        sx.claim(all(tuple(d.atoms) == tuple(dihs[0].atoms) for d in dihs), "terms are on the atoms as listed")
        if mol.mol_name == "molB":
            c = mol.molecule.interactions["constraints"][0]
            sx.claim(c.parameters == ["2", "0.1111"], "a constraint gets the constraint type, not the bond type of the same atom types", lambda: repr(c))
        if mol.mol_name == "molA":
            b = mol.molecule.interactions["bonds"][0]
            sx.claim(b.parameters == ["1", "0.47", "1250"], "bond type found forwards or backwards", lambda: repr(b))
            if use_define:
                b2 = [x for x in mol.molecule.interactions["bonds"] if tuple(x.atoms) == (2, 3)]
                sx.claim(len(b2) == 1 and b2[0].parameters == (["1", "77.0", "77.0"] if use_define == "twice" else ["1", "0.153", "7150000.0"]),
                         "a macro standing for the whole parameter list (function type included) is substituted", lambda: repr(b2))
            a = mol.molecule.interactions["angles"][0]
            exp = ["2", "77.0" if use_define == "twice" else "120", "77.0" if use_define else "45"]
            if use_define:
                sx.cover("define")
            sx.claim(a.parameters == exp, "angle type found and #define substituted", lambda: "%r expected %r" % (a, exp))


def _entry(sx, k, atoms, masks, nterm_max):
    m = MASKS[sx.sel("mask%d" % k, masks)]
    rev = sx.sel("entry_reversed%d" % k, [False, True])
    wrong = sx.sel("entry_other%d" % k, [False, True])      # entry that must not match (differs in a fixed position)
    base = atoms[::-1] if rev else atoms
    if wrong:
        fixed = [i for i in range(4) if not m[i]]
        if not fixed:
            raise symx.PathAbort()
        base = tuple("Q" if i == fixed[len(fixed) // 2] else x for i, x in enumerate(base))
    nterms = sx.sel("nterms%d" % k, list(range(1, nterm_max + 1)))
    return (entry_from(base, m), nterms)


@condition("C09.bonded",
           anchors=["polyply.src.topology:Topology.gen_bonded_interactions", "polyply.src.topology:match_dihedral_interaction_types",
                    "polyply.src.top_parser:TOPDirector._type_params", "polyply.src.top_parser:TOPDirector.finalize"],
           rejects=(), selector_only=True, must_cover=["resolved", "unresolved", "multi-term"],
           outside=["more than 2 dihedral type entries x 3 terms", "tie-breaking among equally specific entries"],
           bounds={"quick": dict(masks=[0, 1, 8, 9, 6, 14, 15], nterm_max=2, layouts=LAYOUTS[:3]),
                   "thorough": dict(masks=list(range(16)), nterm_max=3, layouts=LAYOUTS)},
           budget={"quick": 240, "thorough": 1500})
def bonded(sx, B):
    """Real read_topology + Topology.preprocess on a generated .top text: a dihedral written without parameters in two molecule
    types, a dihedraltype table of two entries (wildcard masks, matching direction, non-matching variants and number of terms
    solver-chosen), atoms listed forwards or backwards, and a [ molecules ] list with interleaved, repeated names. Claims: every
    instance of every molecule type carries all terms of the least-wildcarded matching type exactly once, independent of listing
    direction; an error is raised iff nothing matches."""
    atoms = ("A", "B", "C", sx.sel("a3", ["A", "D"]))
    direction = sx.sel("direction", [0, 1])
    ents = [_entry(sx, k, atoms, B["masks"], B["nterm_max"]) for k in range(2)]
    sx.assume(ents[0][0] != ents[1][0])
    counts = sx.sel("molecules", B["layouts"])
    _run_bonded(sx, atoms, ents, direction, counts, False, False, False)


@condition("C09.bonded_misc",
           anchors=["polyply.src.topology:Topology.gen_bonded_interactions", "polyply.src.topology:Topology.replace_defines",
                    "polyply.src.topology:replace_defined_interaction"],
           rejects=(), selector_only=True, must_cover=["resolved", "opls", "define", "macro redefined", "macro twice in one parameter list"],
           outside=["interaction kinds other than bonds, angles, dihedrals"],
           bounds={"quick": dict(masks=[0, 1, 9, 14], nterm_max=2, layouts=LAYOUTS[:2]),
                   "thorough": dict(masks=list(range(16)), nterm_max=3, layouts=LAYOUTS)},
           budget={"quick": 200, "thorough": 900})
def bonded_misc(sx, B):
    """As C09.bonded with one dihedral type, plus: bond and angle types listed forwards or backwards, bond-type indirection
    (_FF_OPLS: atom type -> bond type -> table), and an angle type whose force constant is a #define macro."""
    atoms = ("A", "B", "C", "D")
    direction = sx.sel("direction", [0, 1])
    opls = sx.sel("opls", [False, True])
    use_define = sx.sel("define", [False, True, "redefined", "twice"])
    if use_define == "redefined":
        sx.cover("macro redefined")
    if use_define == "twice":
        sx.cover("macro twice in one parameter list")
    bond_rev = sx.sel("types_reversed", [False, True])
    ents = [_entry(sx, 0, atoms, B["masks"], B["nterm_max"])]
    counts = sx.sel("molecules", B["layouts"])
    _run_bonded(sx, atoms, ents, direction, counts, opls, use_define, bond_rev)


@condition("C09.nonbonded",
           anchors=["polyply.src.topology:Topology.gen_pairs", "polyply.src.topology:Topology.convert_nonbond_to_sig_eps",
                    "polyply.src.topology:lorentz_berthelot_rule", "polyply.src.topology:geometric_rule"],
           replay=False, must_cover=["comb1", "comb2", "comb3", "explicit"],
           outside=["floating-point rounding (reals)", "more than 3 atom types"],
           bounds={"quick": dict(ntypes=3), "thorough": dict(ntypes=3)},
           budget={"quick": 200, "thorough": 900})
def nonbonded(sx, B):
    """Real Topology.gen_pairs / convert_nonbond_to_sig_eps with symbolic positive reals as atom-type and nonbond_params values:
    pair table keyed by the unordered pair, explicit nonbond_params win, self terms from atom types, generated values equal the
    combination rule, and for comb-rule 1 the converted (sigma, epsilon) reproduce C6 and C12: 4 eps sig^6 = C6, 4 eps sig^12 = C12."""
    n = B["ntypes"]
    names = ["T%d" % i for i in range(n)]
    comb = sx.sel("comb_rule", [1.0, 2.0, 3.0])
    genpairs = sx.sel("gen_pairs", ["yes", "no"])
    ff = vermouth.forcefield.ForceField(name="t")
    top = Topology(ff)
    top.defaults = {"nbfunc": 1.0, "comb-rule": comb, "gen-pairs": genpairs}
    vals = {}
    for t in names:
        vals[t] = (sx.real("nb1_" + t, 0, None, lo_strict=True), sx.real("nb2_" + t, 0, None, lo_strict=True))
        top.atom_types[t] = {"nb1": vals[t][0], "nb2": vals[t][1]}
    explicit = {}
    pairs = list(itertools.combinations_with_replacement(names, 2))
    for (a, b) in pairs:
        if sx.sel("explicit_%s_%s" % (a, b), [False, True]):
            explicit[frozenset([a, b])] = (sx.real("x1_%s_%s" % (a, b), 0, None, lo_strict=True),
                                           sx.real("x2_%s_%s" % (a, b), 0, None, lo_strict=True))
            top.nonbond_params[frozenset([a, b])] = {"f": 1, "nb1": explicit[frozenset([a, b])][0], "nb2": explicit[frozenset([a, b])][1]}
            sx.cover("explicit")
    sx.cover("comb%d" % int(comb))
    top.gen_pairs()
    expected_raw = {}
    for (a, b) in pairs:
        key = frozenset([a, b])
        if key in explicit:
            sx.claim(key in top.nonbond_params, "explicit pair present")
            sx.claim_eq(top.nonbond_params[key]["nb1"], explicit[key][0], "explicit nonbond_params override generated ones (nb1)")
            sx.claim_eq(top.nonbond_params[key]["nb2"], explicit[key][1], "explicit nonbond_params override generated ones (nb2)")
            expected_raw[key] = explicit[key]
        elif a == b:
            sx.claim(key in top.nonbond_params, "self term present")
            sx.claim_eq(top.nonbond_params[key]["nb1"], vals[a][0], "self terms come from the atom types (nb1)")
            sx.claim_eq(top.nonbond_params[key]["nb2"], vals[a][1], "self terms come from the atom types (nb2)")
            expected_raw[key] = vals[a]
        elif genpairs == "yes":
            sx.claim(key in top.nonbond_params, "generated pair present")
            g1, g2 = top.nonbond_params[key]["nb1"], top.nonbond_params[key]["nb2"]
            if comb == 2.0:
                # geometric: squares equal the products (values are positive)
                sx.claim(g1 * g1 == vals[a][0] * vals[b][0], "geometric rule (C6)")
                sx.claim(g2 * g2 == vals[a][1] * vals[b][1], "geometric rule (C12)")
            else:
                sx.claim(g1 * 2 == vals[a][0] + vals[b][0], "Lorentz rule: arithmetic mean of sigma")
                sx.claim(g2 * g2 == vals[a][1] * vals[b][1], "Berthelot rule: geometric mean of epsilon")
            sx.claim(g1 > 0, "generated value positive")
            expected_raw[key] = (g1, g2)
        else:
            sx.claim(key not in top.nonbond_params, "no pairs generated when gen-pairs is no")
    sx.claim(set(top.nonbond_params) == set(expected_raw), "pair table keyed by unordered pairs, nothing else")
    if comb == 1.0:
        top.convert_nonbond_to_sig_eps()
        for key, (c6, c12) in expected_raw.items():
            sig, eps = top.nonbond_params[key]["nb1"], top.nonbond_params[key]["nb2"]
            sx.claim(4 * eps * sig ** 6 == c6, "converted sigma/epsilon reproduce C6")
            sx.claim(4 * eps * sig ** 12 == c12, "converted sigma/epsilon reproduce C12")
