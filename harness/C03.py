"""C03 - gen_coords writes one finite coordinate per topology atom, in topology order."""
import os
import shutil
import tempfile
from pathlib import Path
import numpy as np
import networkx as nx
import vermouth
from vermouth.file_writer import DeferredFileWriter
from pverif.harness import condition, patched
from pverif import symx
from pverif.symx import sym_and, sym_or
from harness.common import top_text, topology_from_text, moltype_text, sentinel
import polyply.src.gen_coords as gc
import polyply.src.build_system as bs
from polyply.src.build_system import BuildSystem, _compute_box_size


class _FakeTopology:
    """stands in for the object Topology.from_gmx_topfile returns; records what gen_coords does with it"""
    def __init__(self, box, molecules):
        self.box = box
        self.molecules = molecules
        self.calls = []
        self.mol_idx_by_name = {}
        self.volumes = {}
        self.distance_restraints = {}
        self.persistences = []

    def preprocess(self):
        self.calls.append("preprocess")

    def add_positions_from_file(self, path, skip_res=(), resolution="mol"):
        self.calls.append(("positions", resolution))

    def convert_to_vermouth_system(self):
        self.calls.append("convert")
        return "SYSTEM"


@condition("C03.box_rule",
           anchors=["polyply.src.gen_coords:gen_coords"],
           replay=False, must_cover=["input structure box", "requested box", "density"],
           stubs=["Topology.from_gmx_topfile, GenerateTemplates, AnnotateLigands, BuildSystem, Backmap, write_gro, DeferredFileWriter, load_build_files, "
                  "_check_molecules -> recording stubs (the real body of gen_coords runs)"],
           bounds={"quick": {}, "thorough": {}})
def box_rule(sx, B):
    """The real body of gen_coords with its heavy stages replaced by recording stubs and symbolic box vectors: the box handed to the
    system builder is the input structure's box when one is given, else the requested -box, else none (density rule); the box
    written with the coordinates is the one the builder settled on; the stages run in the documented order."""
    have_struct = sx.sel("input_structure_box", [False, True])
    have_box = sx.sel("box_option", [False, True])
    have_dens = sx.sel("density_option", [False, True])
    sbox = np.array([sx.real("s%s" % a, 0, None, lo_strict=True) for a in "xyz"], dtype=object) if have_struct else None
    obox = np.array([sx.real("b%s" % a, 0, None, lo_strict=True) for a in "xyz"], dtype=object) if have_box else None
    dens = sx.real("density", 0, None, lo_strict=True) if have_dens else None
    sx.assume(have_struct or have_box or have_dens, "one of input structure box, -box, -dens is given")
    top = _FakeTopology(sbox, [])
    rec = {}
    # the numeric options, each an arbitrary (symbolic) value, and the flag
    opts = dict(bfudge=sx.real("bfudge", 0, None, lo_strict=True), step_fudge=sx.real("step_fudge", 0, None, lo_strict=True),
                max_force=sx.real("max_force", 0, None, lo_strict=True), grid_spacing=sx.real("grid_spacing", 0, None, lo_strict=True),
                maxiter=sx.int("maxiter", 1, 10 ** 6), nrewind=sx.int("nrewind", 1, 100), skip_filter=sx.sel("skip_filter", [False, True]))

    class FakeBuild:
        def __init__(self, topology, start_dict, density, box, **kw):
            rec["build_box"] = box
            rec["build_density"] = density
            rec["build_kw"] = dict(kw)
            rec["order"] = list(topology.calls)
            # the real builder settles the final box and stores it on the topology
            final = box if box is not None else np.array([sx.real("cubic_edge", 0, None, lo_strict=True)] * 3, dtype=object)
            topology.box = (final[0], final[1], final[2])
            rec["final"] = topology.box

        def run_system(self, molecules):
            top.calls.append("build")

    class FakeProc:
        def __init__(self, *a, **k):
            pass

        def run_system(self, t):
            top.calls.append(type(self).__name__)

        def split_ligands(self):
            top.calls.append("split_ligands")

    class Templ(FakeProc):
        def __init__(self, *a, **k):
            rec["templates_kw"] = dict(k)

    class Lig(FakeProc):
        pass

    class Back(FakeProc):
        def __init__(self, *a, **k):
            rec["backmap_args"] = (a, dict(k))

    def fake_write_gro(system, outpath, precision=7, title="", box=None, **kw):
        rec["written_box"] = box
        rec["written_system"] = system
        top.calls.append("write")

    class FakeGro:
        write_gro = staticmethod(fake_write_gro)

    class FakeGmx:
        gro = FakeGro

    class FakeVermouth:
        gmx = FakeGmx

    class FakeWriter:
        def write(self):
            top.calls.append("flush")

    class FakeTopCls:
        @staticmethod
        def from_gmx_topfile(name, path):
            return top
    with patched(gc, Topology=FakeTopCls, GenerateTemplates=Templ, AnnotateLigands=Lig, BuildSystem=FakeBuild, Backmap=Back,
                 vermouth=FakeVermouth, DeferredFileWriter=FakeWriter, load_build_files=lambda *a, **k: top.calls.append("buildfile"),
                 _check_molecules=lambda m: top.calls.append("gate")):
        gc.gen_coords(toppath="t.top", outpath="o.gro", name="x", coordpath="c.gro" if have_struct else None, density=dens, box=obox,
                      **opts)
    got = rec["build_box"]
    if have_struct:
        sx.cover("input structure box")
        sx.claim(got is not None, "builder gets a box when the input structure has one")
        for i in range(3):
            sx.claim(got[i] == sbox[i], "the box of the input structure takes precedence")
    elif have_box:
        sx.cover("requested box")
        sx.claim(got is not None, "builder gets the requested box")
        for i in range(3):
            sx.claim(got[i] == obox[i], "builder gets the requested box")
    else:
        sx.cover("density")
        sx.claim(got is None and rec["build_density"] is dens, "without a box the builder derives it from the density")
    wb = rec["written_box"]
    for i in range(3):
        sx.claim(wb[i] == rec["final"][i], "the written box is the one the system was built in")
    calls = [c if isinstance(c, str) else c[0] for c in top.calls]
    want_order = ["preprocess", "gate"] + (["positions"] if have_struct else []) + ["buildfile", "Templ", "Lig", "build", "split_ligands", "Back", "convert", "write", "flush"]
    sx.claim(calls == want_order, "stages run in order and the output is written last", lambda: repr(calls))
    sx.claim(rec["written_system"] == "SYSTEM", "the system written is the topology's")
    # every option reaches the stage it configures
    a, k = rec["backmap_args"]
    got_f = k.get("fudge_coords", a[0] if a else None)
    sx.claim(got_f is not None and got_f == opts["bfudge"], "the backmapping factor given to gen_coords is the one the backmapping stage uses")
    for name in ("step_fudge", "max_force", "grid_spacing", "maxiter", "nrewind"):
        v = rec["build_kw"].get(name)
        sx.claim(v is not None and v == opts[name], "option %s reaches the system builder" % name)
    sx.claim(rec["templates_kw"].get("skip_filter") is opts["skip_filter"], "option skip_filter reaches the template generator")


MASS_MOLS = {"MA": [("A", ["a1", "a2"])], "MB": [("B", ["b1"])]}


@condition("C03.density_box",
           anchors=["polyply.src.build_system:_compute_box_size", "polyply.src.build_system:BuildSystem.__init__"],
           replay=False, must_cover=["atom masses", "type masses", "massless site", "mass column on some atoms only"],
           stubs=["grid argument given (no np.mgrid over symbolic box)"],
           outside=["IEEE rounding beyond round(., 5)"],
           bounds={"quick": dict(layouts=[[("MA", 1)], [("MA", 2), ("MB", 1)]]), "thorough": dict(layouts=[[("MA", 1)], [("MA", 2), ("MB", 1)], [("MB", 3), ("MA", 1)]])})
def density_box(sx, B):
    """Real BuildSystem.__init__ / _compute_box_size on a topology from the real reader with symbolic masses (on the atoms or on
    the atom types) and a symbolic density: the box is cubic and its edge, rounded to 5 decimals, satisfies
    |edge - (1.660541 * total mass / density)^(1/3)| <= 0.5e-5; the topology carries the same box."""
    layout = sx.sel("layout", B["layouts"])
    where = sx.sel("masses_from", ["atoms", "atom types", "mass column on the first atom of each molecule only"])
    top = topology_from_text(top_text(MASS_MOLS, layout, atomtypes=("A", "B")))
    mA, mB = sx.real("mass_A", 0, 1000, lo_strict=True), sx.real("mass_B", 0, 1000, lo_strict=True)
    total = 0
    for meta in top.molecules:
        for a in meta.molecule.nodes:
            nd = meta.molecule.nodes[a]
            m = mA if nd["atype"] == "TA" else mB
            total = total + m
            if where == "atoms" or (where.startswith("mass column") and a == min(meta.molecule.nodes)):
                nd["mass"] = m
            else:
                nd.pop("mass", None)
    if where.startswith("mass column"):
        # the optional mass column is given for some atoms only: every atom without one takes the mass of its type
        top.atom_types["TA"]["mass"] = mA
        top.atom_types["TB"]["mass"] = mB
        sx.cover("mass column on some atoms only")
    elif where == "atom types":
        top.atom_types["TA"]["mass"] = mA
        top.atom_types["TB"]["mass"] = mB
        sx.cover("type masses")
    else:
        sx.cover("atom masses")
        if sx.sel("massless_site", [False, True]):
            # an atom with an explicit mass of 0 (virtual site) whose atom type has a mass: it contributes nothing
            meta = top.molecules[0]
            a = sorted(meta.molecule.nodes)[0]
            total = total - meta.molecule.nodes[a]["mass"]
            meta.molecule.nodes[a]["mass"] = 0.0
            top.atom_types["TA"]["mass"] = mA
            sx.cover("massless site")
    dens = sx.real("density", 1, 5000)
    builder = BuildSystem(top, density=dens, start_dict={}, grid=np.array([[0.0, 0.0, 0.0]]))
    e = builder.box
    sx.claim(e[0] is e[1] is e[2] or sym_and(e[0] == e[1], e[1] == e[2]), "the box is cubic")
    eps = 0.000005
    vol = total * 1.6605410 / dens
    lo, hi = e[0] - eps, e[0] + eps
    sx.claim(sym_and(lo * lo * lo <= vol, vol <= hi * hi * hi), "edge^3 equals 1.660541 x total mass / density up to the rounding to 5 decimals")
    sx.claim(top.box[0] is e[0] or top.box[0] == e[0], "the topology carries the box")


ORDER_MOLS = {"P": [("A", ["a1", "a2"]), ("B", ["b1"])], "S": [("S", ["s1"])],
              "V": "[ moleculetype ]\nV 1\n[ atoms ]\n1 TA 1 A v1 1 0.0 36.0\n2 TA 1 A v2 1 0.0 36.0\n3 TA 1 A vs 1 0.0 0.0\n[ bonds ]\n1 2 1 0.3 100\n[ virtual_sites2 ]\n3 1 2 1 0.5\n"}


@condition("C03.order",
           anchors=["polyply.src.top_parser:TOPDirector.finalize", "polyply.src.topology:Topology.convert_to_vermouth_system"],
           rejects=(), selector_only=True, must_cover=["repeated name", "zero count", "virtual site"],
           outside=["more than three [ molecules ] lines, counts above 3"],
           bounds={"quick": dict(cmax=2), "thorough": dict(cmax=3)},
           budget={"quick": 200, "thorough": 900})
def order(sx, B):
    """Real topology reader + convert_to_vermouth_system + vermouth write_gro on a [ molecules ] list of three lines with
    solver-chosen names (repeats allowed) and symbolic counts (rendered, hence forked): every atom gets a distinct sentinel
    position; the written file lists exactly the atoms of the expanded list in order with their residue numbers, residue names,
    atom names and their own coordinates."""
    lines = []
    for k in range(3):
        nm = sx.sel("name%d" % k, ["P", "S", "V"])
        cnt = int(sx.int("count%d" % k, 0, B["cmax"]))
        lines.append((nm, cnt))
    sx.assume(sum(c for _, c in lines) >= 1)
    top = topology_from_text(top_text(ORDER_MOLS, lines, atomtypes=("A", "B", "S")))
    if len(set(n for n, _ in lines)) < 3:
        sx.cover("repeated name")
    if any(c == 0 for _, c in lines):
        sx.cover("zero count")
    if any(n == "V" and c for n, c in lines):
        sx.cover("virtual site")
    expected = []
    k = 0
    spec = {"P": [(1, "A", "a1"), (1, "A", "a2"), (2, "B", "b1")], "S": [(1, "S", "s1")], "V": [(1, "A", "v1"), (1, "A", "v2"), (1, "A", "vs")]}
    want_mols = [n for n, c in lines for _ in range(c)]
    sx.claim([m.mol_name for m in top.molecules] == want_mols, "molecules are instantiated in [ molecules ] order", lambda: repr([m.mol_name for m in top.molecules]))
    for mi, meta in enumerate(top.molecules):
        for a in sorted(meta.molecule.nodes, key=lambda x: meta.molecule.nodes[x]["index"]):
            pos = np.round(sentinel(k) + 0.001 * mi, 3)
            meta.molecule.nodes[a]["position"] = pos
            k += 1
    k = 0
    for mi, nm in enumerate(want_mols):
        for (rid, rname, aname) in spec[nm]:
            expected.append((rid, rname, aname, tuple(np.round(sentinel(k) + 0.001 * mi, 3))))
            k += 1
    d = tempfile.mkdtemp(prefix="pverif_", dir=os.environ.get("TMPDIR"))
    try:
        out = os.path.join(d, "out.gro")
        system = top.convert_to_vermouth_system()
        vermouth.gmx.gro.write_gro(system, out, precision=7, title="t", box=(9.0, 8.0, 7.0))
        DeferredFileWriter().write()
        text = open(out).read().split("\n")
    finally:
        shutil.rmtree(d, ignore_errors=True)
    natoms = int(text[1])
    got = []
    for line in text[2:2 + natoms]:
        got.append((int(line[0:5]), line[5:10].strip(), line[10:15].strip(), tuple(round(float(x), 3) for x in line[20:].split()[:3])))
    sx.claim(natoms == len(expected), "one line per atom of the expanded [ molecules ] list", lambda: "%d vs %d" % (natoms, len(expected)))
    sx.claim(got == expected, "atoms are written in topology order with residue number, residue name, atom name and their own coordinates",
             lambda: "molecules %r:\n%r\nexpected\n%r" % (lines, got[:12], expected[:12]))
    sx.claim(all(np.all(np.isfinite(g[3])) for g in got), "all coordinates are finite")
    sx.claim([round(float(x), 3) for x in text[2 + natoms].split()] == [9.0, 8.0, 7.0], "the box line carries the requested box")


import harness.C17 as _c17      # noqa: E402


@condition("C03.completeness",
           anchors=["polyply.src.build_system:BuildSystem._compose_system", "polyply.src.nonbond_engine:NonBondEngine.update_positions_in_molecules"],
           rejects=(), must_cover=["abandoned", "finished"], cfg={"path_timeout_s": 20},
           stubs=_c17.REGISTRY_STUBS if hasattr(_c17, "REGISTRY_STUBS") else ["as C17.rewind"],
           bounds={"quick": dict(shapes=["path3", "path5", "star4"], calls=7, nrewind=(2, 3), rw_maxiter=(2,), all_subsets=False, attempts=1),
                   "thorough": dict(shapes=["path3", "path4", "star4", "ring4"], calls=9, nrewind=(2, 4), rw_maxiter=(2, 3), all_subsets=False, attempts=2)},
           budget={"quick": 200, "thorough": 900})
def completeness(sx, B):
    """All molecules are iterated until each has positions: the C17 harness (real run_system under every failure schedule, incl.
    exhausted rounds of attempts) with the end-of-run claim that every residue of every molecule has a finite position."""
    _c17.rewind(sx, B)


E2E_MOLS = {"PM": [("A", ["a1", "a2"]), ("B", ["b1"]), ("A", ["a1", "a2"])], "SV": [("S", ["s1"])]}
E2E_LAYOUT = [("PM", 1), ("SV", 2), ("PM", 1)]


def _gro(atoms, box):
    lines = ["given", "%5d" % len(atoms)]
    for k, (rid, rname, aname, xyz) in enumerate(atoms):
        lines.append("%5d%-5s%5s%5d%8.3f%8.3f%8.3f" % (rid, rname, aname, k + 1, xyz[0], xyz[1], xyz[2]))
    lines.append("%10.5f%10.5f%10.5f" % tuple(box))
    return "\n".join(lines) + "\n"


@condition("C03.end_to_end",
           anchors=["polyply.src.gen_coords:gen_coords", "polyply.src.build_system:BuildSystem.run_system", "polyply.src.backmap:Backmap.run_molecule",
                    "polyply.src.generate_templates:GenerateTemplates.run_molecule", "polyply.src.topology:Topology.add_positions_from_file"],
           rejects=(), selector_only=True, must_cover=["box", "density", "structure", "build file", "grid", "start", "meta coordinates", "nested includes", "split"],
           stubs=["none: the real gen_coords runs end to end with real files (random seed fixed from VERIF_SEED)"],
           outside=["systems larger than the 4-molecule test system", "this condition explores option combinations with one seed each; all-seeds claims are the lemmas above"],
           cfg={"path_timeout_s": 300},
           bounds={"quick": dict(), "thorough": dict()},
           budget={"quick": 280, "thorough": 900})
def end_to_end(sx, B):
    """The real gen_coords, unstubbed, on a four-molecule topology with a solver-chosen combination of options (-box / -dens /
    input structure for the first molecules / residue-centre coordinates, build file, -grid, -start, -res): the written .gro lists
    exactly the atoms of the expanded [ molecules ] section in order with residue numbers, residue names and atom names, all
    coordinates finite, supplied coordinates unchanged, and the box that was requested / taken from the structure / cubic with
    volume = 1.660541 x mass / density."""
    boxmode = sx.sel("box_source", ["box", "density", "structure", "meta coordinates"])
    buildfile = sx.sel("build_file", [False, True])
    grid = sx.sel("grid", [False, True])
    start = sx.sel("start", [False, True])
    rebuild = sx.sel("rebuild_residue_B", [False, True]) if boxmode in ("structure", "meta coordinates") else False
    sx.cover({"box": "box", "density": "density", "structure": "structure", "meta coordinates": "meta coordinates"}[boxmode])
    d = tempfile.mkdtemp(prefix="pverif_", dir=os.environ.get("TMPDIR"))
    DeferredFileWriter().open_files.clear()
    np.random.seed(int(os.environ.get("VERIF_SEED", "0") or 0) + 11)
    import random as _random
    _random.seed(int(os.environ.get("VERIF_SEED", "0") or 0) + 11)
    try:
        if sx.sel("topology_files", ["one file", "nested includes"]) == "one file":
            (Path(d) / "sys.top").write_text(top_text(E2E_MOLS, E2E_LAYOUT, atomtypes=("A", "B", "S")))
        else:
            # sys.top -> ff/mols.itp -> solv.itp (next to mols.itp); a file of the same name next to sys.top defines another SV
            full = top_text({}, E2E_LAYOUT, atomtypes=("A", "B", "S"))
            head, tail = full.split("[ system ]")
            (Path(d) / "ff").mkdir()
            (Path(d) / "sys.top").write_text(head + '#include "ff/mols.itp"\n[ system ]' + tail)
            (Path(d) / "ff" / "mols.itp").write_text(moltype_text("PM", E2E_MOLS["PM"]) + '\n#include "solv.itp"\n')
            (Path(d) / "ff" / "solv.itp").write_text(moltype_text("SV", E2E_MOLS["SV"]) + "\n")
            (Path(d) / "solv.itp").write_text(moltype_text("SV", [("S", ["s1", "s2", "s3"])]) + "\n")
            sx.cover("nested includes")
        kw = dict(toppath=Path(d) / "sys.top", outpath=Path(d) / "out.gro", name="sys", maxiter=200)
        given = []
        sbox = (7.0, 8.0, 9.0)
        if boxmode == "structure":
            # all atoms of the first molecule and the first solvent are supplied
            spec = [(1, "A", "a1"), (1, "A", "a2"), (2, "B", "b1"), (3, "A", "a1"), (3, "A", "a2"), (1, "S", "s1")]
            if rebuild:
                # residues named for rebuilding are not part of the coordinate file (the reader consumes rows in order)
                spec = [x for x in spec if x[1] != "B"]
            for k, (rid, rn, an) in enumerate(spec):
                given.append((rid, rn, an, (1.0 + 0.47 * k, 2.0 + 0.1 * (k % 2), 3.0)))
            (Path(d) / "in.gro").write_text(_gro(given, sbox))
            kw["coordpath"] = Path(d) / "in.gro"
            if rebuild:
                kw["build_res"] = ["B"]
        elif boxmode == "meta coordinates":
            centres = [(1, "A", "A", (1.0, 2.0, 3.0)), (2, "B", "B", (1.5, 2.0, 3.0)), (3, "A", "A", (2.0, 2.0, 3.0))]
            if rebuild:
                centres = [c for c in centres if c[1] != "B"]
                kw["build_res"] = ["B"]
            (Path(d) / "meta.gro").write_text(_gro(centres, sbox))
            kw["coordpath_meta"] = Path(d) / "meta.gro"
            meta_centres = centres
        elif boxmode == "box":
            kw["box"] = np.array([6.0, 6.5, 7.0])
        else:
            kw["density"] = 20.0
        if buildfile:
            (Path(d) / "b.bld").write_text("[ molecule ]\nPM 0 4\n[ sphere ]\nA 1 4 in 3.0 3.0 3.0 5.0\n[ volumes ]\nS 0.4\n")
            kw["build"] = [Path(d) / "b.bld"]
            sx.cover("build file")
        if grid:
            pts = np.array([[0.5 + 0.8 * i, 0.5 + 0.8 * j, 0.5 + 0.8 * k] for i in range(4) for j in range(4) for k in range(4)])
            np.savetxt(Path(d) / "grid.dat", pts)
            kw["grid"] = Path(d) / "grid.dat"
            sx.cover("grid")
        split = sx.sel("split_residue_A", [False, True]) if boxmode in ("box", "density") and not start and not buildfile else False
        if split:
            # -split without input coordinates: residue A of PM becomes two one-atom residues (the other residues and the solvent are not split)
            kw["split"] = ["A:A1-a1:A2-a2"]
            sx.cover("split")
        if start:
            kw["start"] = ["PM-A#3"]
            sx.cover("start")
        with patched(bs, tqdm=_Tq):
            gc.gen_coords(**kw)
        text = (Path(d) / "out.gro").read_text().split("\n")
    finally:
        DeferredFileWriter().open_files.clear()
        shutil.rmtree(d, ignore_errors=True)
    spec_of = {"PM": [(1, "A", "a1"), (1, "A", "a2"), (2, "B", "b1"), (3, "A", "a1"), (3, "A", "a2")], "SV": [(1, "S", "s1")]}
    want = [x for nm, c in E2E_LAYOUT for _ in range(c) for x in spec_of[nm]]
    natoms = int(text[1])
    got = [(int(l[0:5]), l[5:10].strip(), l[10:15].strip(), tuple(float(x) for x in l[20:].split()[:3])) for l in text[2:2 + natoms]]
    what = lambda: "options %r" % {k: (str(v) if not isinstance(v, (int, float, list)) else v) for k, v in kw.items() if k not in ("toppath", "outpath", "name")}
    if split:
        # splitting renames and renumbers residues (C18.split); the atoms and their order are those of the topology
        sx.claim([g[2] for g in got] == [w[2] for w in want], "the structure lists exactly the atoms of the expanded [ molecules ] section in topology order",
                 lambda: what() + ": %r" % [g[:3] for g in got])
    else:
        sx.claim([g[:3] for g in got] == want, "the structure lists exactly the atoms of the expanded [ molecules ] section in topology order",
                 lambda: what() + ": %r" % [g[:3] for g in got])
    sx.claim(all(np.all(np.isfinite(g[3])) for g in got), "every coordinate is finite", what)
    boxline = [float(x) for x in text[2 + natoms].split()]
    if boxmode in ("structure", "meta coordinates"):
        sx.claim(np.allclose(boxline, sbox, atol=1e-4), "the box of the input structure is written", lambda: what() + ": %r" % boxline)
    elif boxmode == "box":
        sx.claim(np.allclose(boxline, [6.0, 6.5, 7.0], atol=1e-4), "the requested box is written", lambda: what() + ": %r" % boxline)
    else:
        mass = 36.0 * len(want)
        edge = round((mass * 1.6605410 / 20.0) ** (1 / 3.), 5)
        sx.claim(np.allclose(boxline, [edge] * 3, atol=2e-5), "a cubic box with volume = total mass / density is written",
                 lambda: what() + ": %r expected %r" % (boxline, edge))
    if boxmode == "meta coordinates":
        # residues given only as centres are backmapped around exactly those centres
        first = got[:5]
        cog = {1: np.mean([g[3] for g in first[0:2]], axis=0), 2: np.array(first[2][3]), 3: np.mean([g[3] for g in first[3:5]], axis=0)}
        for (rid, rn, an, xyz) in meta_centres:
            sx.claim(np.allclose(cog[rid], xyz, atol=2e-3), "a residue given as a centre is backmapped around exactly that centre",
                     lambda: what() + ": residue %d centre %r expected %r" % (rid, cog[rid], xyz))
    # position of the supplied atoms in the output (the rebuilt residue B of the first molecule is atom 2)
    out_idx = [0, 1, 2, 3, 4, 5] if not rebuild else [0, 1, 3, 4, 5]
    for k, (rid, rn, an, xyz) in zip(out_idx, given):
        sx.claim(np.allclose(got[k][3], xyz, atol=1.1e-3), "supplied coordinates are written unchanged",
                 lambda: what() + ": atom %d %r expected %r" % (k, got[k][3], xyz))


class _Tq:
    def __init__(self, *a, **k):
        pass

    def update(self, n):
        pass

    def close(self):
        pass


import harness.C10 as _c10      # noqa: E402


@condition("C03.accepted_is_built",
           anchors=["polyply.src.gen_coords:gen_coords", "polyply.src.gen_coords:_check_molecules", "polyply.src.build_system:BuildSystem.run_system"],
           rejects=(), selector_only=True, must_cover=["refused", "built", "ring plus detached residue", "two residues joined by two bonds"],
           stubs=["none: the real gen_coords runs end to end with real files (random seed fixed from VERIF_SEED)"],
           outside=["molecule types other than the chain, the dimer and the ring with a pendant residue"],
           cfg={"path_timeout_s": 300},
           bounds={"quick": dict(), "thorough": dict()},
           budget={"quick": 280, "thorough": 900})
def accepted_is_built(sx, B):
    """'every topology that gen_coords accepts': the real gen_coords on topologies in which a solver-chosen molecule type (chain,
    dimer, ring with a pendant residue) misses a solver-chosen bond. Either the topology is refused (IOError), or the structure
    that is written lists every atom of the expanded [ molecules ] section with finite coordinates - in particular a molecule
    that is not connected is never built into a structure with non-finite coordinates."""
    layout = sx.sel("layout", [[("SOL", 1), ("RNG", 1)], [("POL", 1), ("DIM", 1), ("SOL", 1)], [("RNG", 1), ("POL", 1)], [("LAD", 2), ("SOL", 1)]])
    if layout[0][0] == "LAD":
        sx.cover("two residues joined by two bonds")
    mt, bad = _c10.broken_moltypes(sx)
    d = tempfile.mkdtemp(prefix="pverif_", dir=os.environ.get("TMPDIR"))
    DeferredFileWriter().open_files.clear()
    np.random.seed(int(os.environ.get("VERIF_SEED", "0") or 0) + 5)
    import random as _random
    _random.seed(int(os.environ.get("VERIF_SEED", "0") or 0) + 5)
    try:
        (Path(d) / "sys.top").write_text(top_text(mt, layout))
        try:
            with patched(bs, tqdm=_Tq):
                gc.gen_coords(toppath=Path(d) / "sys.top", outpath=Path(d) / "out.gro", name="sys", maxiter=200, box=np.array([6.0, 6.0, 6.0]))
        except IOError:
            sx.cover("refused")
            sx.claim(any(nm in bad for nm, _ in layout), "only topologies with a disconnected molecule are refused")
            return
        text = (Path(d) / "out.gro").read_text().split("\n")
    finally:
        DeferredFileWriter().open_files.clear()
        shutil.rmtree(d, ignore_errors=True)
    sx.cover("built")
    want = [(r + 1, rn, an) for nm, c in layout for _ in range(c) for r, (rn, ats) in enumerate(_c10.MOLS[nm]) for an in ats]
    natoms = int(text[1])
    got = [(int(l[0:5]), l[5:10].strip(), l[10:15].strip(), l[20:44]) for l in text[2:2 + natoms]]
    sx.claim([g[:3] for g in got] == want, "an accepted topology is written with exactly its atoms", lambda: repr([g[:3] for g in got]))

    def finite(txt):
        try:
            return bool(np.all(np.isfinite([float(x) for x in txt.split()]))) and len(txt.split()) == 3
        except ValueError:
            return False
    sx.claim(all(finite(g[3]) for g in got), "every coordinate of an accepted topology is finite",
             lambda: "layout %r, types not connected by bonds %r: %r" % (layout, sorted(bad), [g[3] for g in got if not finite(g[3])]))


import harness.C16 as _c16      # noqa: E402


@condition("C03.engine_positions",
           anchors=["polyply.src.nonbond_engine:NonBondEngine.add_positions", "polyply.src.nonbond_engine:NonBondEngine.remove_positions",
                    "polyply.src.nonbond_engine:NonBondEngine.concatenate_trees", "polyply.src.nonbond_engine:NonBondEngine.get_point"],
           rejects=(), selector_only=True, must_cover=["add", "new tree", "concatenate"],
           stubs=["as C16.histories"], cfg={"path_timeout_s": 60},
           bounds={"quick": dict(nops=2, nops_big=2, npoints=2, big=[True]), "thorough": dict(nops=3, nops_big=2, npoints=2, big=[False, True])},
           budget={"quick": 240, "thorough": 1500})
def engine_positions(sx, B):
    """'each with finite coordinates' in large systems: the coordinates that are written are the rows of the engine's position
    table. The C16.histories harness (real NonBondEngine under every add / remove / consolidate history, including the state with
    more than 5000 stored residues in which a new search tree is opened) with its claim that position table, index lists and
    search trees agree after every operation - a residue that was added is finite in the table."""
    _c16.histories(sx, B)
