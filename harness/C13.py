"""C13 - Generated topology is independent of labelling, ordering and run history."""
import itertools
import os
import shutil
import tempfile
from pathlib import Path
import networkx as nx
from pverif.harness import condition, patched
from pverif import symx
from harness.ffgen import simple_block, multi_res_block, block_text_ff, block_text_itp, parse_ff, GRAPHS, residue_graph
import polyply.src.apply_links as al
import polyply.src.gen_itp as gen_itp
from polyply.src.map_to_molecule import MapToMolecule
from polyply.src.apply_links import ApplyLinks


class _Tqdm:
    def __init__(self, it=None, *a, **k):
        self.it = it

    def __iter__(self):
        return iter(self.it)


LINKS = ['[ link ]\nresname "A|B"\n[ bonds ]\n{la} +{fa} 1 0.40 400\n',
         '[ link ]\nresname "A|B"\n[ angles ]\n{la} +{fa} ++{fa} 2 125 60\n',
         '[ link ]\nresname "A|B"\n[ bonds ]\n{fa} >{fa} 6 0.9 10 {{"comment": "long"}}\n',
         # a link to *any* bonded residue: both orientations of a residue pair are applied
         '[ link ]\nresname "A|B"\n[ angles ]\n{fa} {la} *{fa} 2 133 33\n']


# two non-conflicting links on the same junction: one re-types the first atom of the B residue, the other is written for the
# block's own type of that atom (as every link derived from a dangling .itp interaction is)
RETYPE = ['[ link ]\n[ atoms ]\na2 {"resname": "A"}\n+b1 {"resname": "B", "replace": {"atype": "TBcap", "charge": 0.25}}\n[ angles ]\na1 a2 +b1 2 111 11\n',
          '[ link ]\n[ atoms ]\na2 {"resname": "A"}\n+b1 {"resname": "B", "atype": "TB1"}\n[ angles ]\na2 +b1 +b2 2 99 9\n']


BR_ITP = """[ moleculetype ]
BR 1
[ atoms ]
1 C1 1 CEN X 1 0.0 1.0
2 C2 2 ARM Y 2 0.0 1.0
3 C3 3 TIP Z 3 0.0 1.0
[ bonds ]
1 2 1 0.30 5000
1 3 1 0.31 6000
"""
BR_LINK = '[ link ]\n[ bonds ]\nZ {"resname": "TIP"} +X {"resname": "CEN"} 1 0.40 1000\n'


def pipeline(ff, meta):
    MapToMolecule(ff).run_molecule(meta)
    with patched(al, tqdm=_Tqdm):
        ApplyLinks().run_molecule(meta)
    return canonical(meta.molecule)


def canonical(mol, start=0):
    """atoms by (residue id, position in residue) with attributes; multiset of interactions on those labels"""
    order = sorted(mol.nodes)
    label = {}
    seen = {}
    for a in order:
        r = mol.nodes[a]["resid"]
        rk = r if not symx.is_sym(r) else int(r - start)
        seen[rk] = seen.get(rk, 0) + 1
        label[a] = (rk, mol.nodes[a]["atomname"], seen[rk])
    atoms = sorted((label[a], mol.nodes[a]["atype"], mol.nodes[a]["resname"], str(mol.nodes[a].get("charge")),
                    str(mol.nodes[a].get("mass")), ) for a in order)
    inters = {}
    for t, lst in mol.interactions.items():
        for i in lst:
            lab = tuple(label[a] for a in i.atoms)
            if t in ("bonds", "angles", "constraints", "pairs", "exclusions") and lab[::-1] < lab:
                lab = lab[::-1]       # these interactions are symmetric under reversal of the atom list
            k = (t, lab, tuple(str(p) for p in i.parameters), tuple(sorted((x, str(y)) for x, y in i.meta.items() if x != "version")))
            inters[k] = inters.get(k, 0) + 1
    return atoms, inters, mol.nrexcl


TRANSFORMS_T = [t for i, t in enumerate(itertools.product(["reversed ints", "large ints", "strings", "scrambled"], ["same", "reversed"],
                                                          ["same", "flipped and reversed"], ["same", "blocks swapped", "links reversed", "links before blocks"]))
                if i % 4 == (i // 16) % 4]
TRANSFORMS_Q = [("reversed ints", "same", "same", "same"), ("large ints", "reversed", "same", "links reversed"),
                ("strings", "same", "flipped and reversed", "blocks swapped"), ("scrambled", "reversed", "flipped and reversed", "links before blocks"),
                ("scrambled", "same", "same", "links reversed"), ("strings", "reversed", "same", "same")]


@condition("C13.relabel",
           anchors=["polyply.src.map_to_molecule:MapToMolecule.add_blocks", "polyply.src.apply_links:ApplyLinks.run_molecule",
                    "polyply.src.apply_links:_check_relative_order", "polyply.src.map_to_molecule:MapToMolecule.match_nodes_to_blocks"],
           rejects=(), must_cover=["relabelled", "reordered definitions", "multi-residue", "attribute-replacing link next to a typed link", "branched multi-residue copies"],
           stubs=["apply_links.tqdm -> plain iteration"],
           outside=["hash randomisation across processes (checks run with PYTHONHASHSEED=0 unless the caller sets it)", "residue graphs of more than 4 residues"],
           bounds={"quick": dict(nmax=3, transforms=TRANSFORMS_Q), "thorough": dict(nmax=4, transforms=TRANSFORMS_T)},
           budget={"quick": 280, "thorough": 1500})
def relabel(sx, B):
    """Metamorphic: the real pipeline read_ff/read_polyply -> MetaMolecule -> MapToMolecule -> ApplyLinks is run on an input and on a
    transformed copy inside one path - node keys relabelled (out-of-order integers, large integers, strings), nodes inserted in
    another order, edges given in the other orientation and order, blocks and links defined in another order / another file order -
    with residue ids fixed: atoms and the multiset of interactions must be identical."""
    n = int(sx.int("n", 2, B["nmax"]))
    shape = sx.sel("shape", sorted(GRAPHS[n]))
    names = [sx.sel("res%d" % i, ["A", "B"]) for i in range(n)]
    perm = sx.sel("resid_order", list(itertools.permutations(range(n)))[:6])
    nlinks = sx.sel("links", [1, 4])
    keymode, ins, eflip, deforder = sx.sel("transform", B["transforms"])
    specs = {"A": simple_block("A", 2, multi=False, nrexcl=sx.sel("nrexclA", [1, 2])), "B": simple_block("B", 3, multi=True)}
    la, fa = "{la}", "{fa}"
    ltexts = []
    for k in range(nlinks):
        for x in ("A", "B"):
            for y in ("A", "B"):
                ltexts.append(LINKS[k].format(la=specs[x].atoms[-1][0], fa=specs[y].atoms[0][0]))
    if sx.sel("retyping_link", [False, True]):
        ltexts += RETYPE
        if any(names[u] != names[v] for u, v in GRAPHS[n][shape]):
            sx.cover("attribute-replacing link next to a typed link")

    def build(order_mode):
        blocks = [("ff", block_text_ff(specs["A"])), ("itp", block_text_itp(specs["B"]))]
        links = [("ff", t) for t in ltexts]
        if order_mode == "blocks swapped":
            blocks = blocks[::-1]
        if order_mode == "links reversed":
            links = links[::-1]
        texts = (links + blocks) if order_mode == "links before blocks" else (blocks + links)
        return parse_ff(texts)
    resids = [1 + perm[i] for i in range(n)]
    ff1 = build("same")
    meta1 = residue_graph(n, GRAPHS[n][shape], names, resids, ff=ff1)
    ref = pipeline(ff1, meta1)
    keys = {"reversed ints": [n - 1 - i for i in range(n)], "large ints": [10 ** 6 + 17 * ((i * 7) % 5) + i for i in range(n)],
            "strings": ["res_%s" % "zyxwv"[i] for i in range(n)], "scrambled": [(3 * i + 2) % 7 for i in range(n)]}[keymode]
    edges = GRAPHS[n][shape]
    if eflip != "same":
        edges = [(b, a) for a, b in edges][::-1]
    order = list(range(n)) if ins == "same" else list(range(n))[::-1]
    sx.cover("relabelled")
    if deforder != "same":
        sx.cover("reordered definitions")
    ff2 = build(deforder)
    meta2 = residue_graph(n, edges, names, resids, keys=keys, order=order, ff=ff2)
    out = pipeline(ff2, meta2)
    what = lambda: "residues %r resids %r shape %s; keys %r insertion %s edges %s definitions %s" % (names, resids, shape, keys, ins, eflip, deforder)
    sx.claim(out[0] == ref[0], "atoms are independent of node labelling, insertion order and definition order",
             lambda: what() + "\n%r\n%r" % (ref[0], out[0]))
    sx.claim(out[1] == ref[1], "the multiset of interactions is independent of node labelling, edge orientation and definition order",
             lambda: what() + "\nonly in reference: %r\nonly in transformed: %r" % (
                 sorted(k for k in ref[1] if ref[1][k] != out[1].get(k)), sorted(k for k in out[1] if out[1][k] != ref[1].get(k))))
    sx.claim(out[2] == ref[2], "molecule-wide exclusion distance is the same")
    if sx.sel("multi_residue_variant", [False, True]) and n >= 2:
        # the same with a doubled two-residue fragment under relabelling
        mspec = multi_res_block("MUL")
        ffm = parse_ff([("itp", block_text_itp(mspec))])
        nm = ["MA", "MB", "MA", "MB"]
        fi = {i: "MUL" for i in range(4)}
        m1 = residue_graph(4, [(0, 1), (1, 2), (2, 3)], nm, [1, 2, 3, 4], from_itp=fi, ff=ffm)
        MapToMolecule(ffm).run_molecule(m1)
        a = canonical(m1.molecule)
        ffm2 = parse_ff([("itp", block_text_itp(mspec))])
        k2 = {"reversed ints": [3, 2, 1, 0], "large ints": [10, 3, 7, 1], "strings": ["d", "b", "c", "a"], "scrambled": [5, 1, 6, 2]}[keymode]
        m2 = residue_graph(4, [(2, 3), (1, 2), (0, 1)] if eflip != "same" else [(0, 1), (1, 2), (2, 3)], nm, [1, 2, 3, 4], keys=k2,
                           order=order if n == 4 else ([3, 2, 1, 0] if ins != "same" else [0, 1, 2, 3]), from_itp=fi, ff=ffm2)
        MapToMolecule(ffm2).run_molecule(m2)
        b = canonical(m2.molecule)
        sx.cover("multi-residue")
        sx.claim(a[0] == b[0] and a[1] == b[1], "multi-residue fragments are mapped independently of node labelling",
                 lambda: "keys %r: %r vs %r" % (k2, a[0], b[0]))
        # two directly connected copies of a *branched* three-residue molecule (centre bonded to an arm and to a tip, the tip of the
        # first copy linked to the centre of the second): the copies are told apart by residue id, whatever the order of the edges
        br_names = ["CEN", "ARM", "TIP"] * 2
        br_edges = [(0, 1), (0, 2), (2, 3), (3, 4), (3, 5)]
        eo = sx.sel("branched_edge_order", ["as given", "edges of the first centre swapped", "reversed"])
        e2 = {"as given": br_edges, "edges of the first centre swapped": [br_edges[1], br_edges[0]] + br_edges[2:], "reversed": [(v, u) for u, v in br_edges][::-1]}[eo]
        fib = {i: "BR" for i in range(6)}
        outs = []
        for edges_ in (br_edges, e2):
            ffb = parse_ff([("itp", BR_ITP), ("ff", BR_LINK)])
            mb = residue_graph(6, edges_, br_names, [1, 2, 3, 4, 5, 6], from_itp=fib, ff=ffb)
            outs.append(pipeline(ffb, mb))
        sx.cover("branched multi-residue copies")
        sx.claim(outs[0][0] == outs[1][0] and outs[0][1] == outs[1][1], "connected copies of a branched multi-residue molecule do not depend on the edge order",
                 lambda: "edge order %s:\n%r\n%r" % (eo, outs[0][1], outs[1][1]))
        sx.claim(sum(outs[0][1].values()) == 5, "both copies keep their two bonds and the link bond joins them", lambda: repr(outs[0][1]))


@condition("C13.history",
           anchors=["polyply.src.gen_itp:gen_params", "polyply.src.load_library:load_ff_library", "polyply.src.load_library:read_options_from_files",
                    "polyply.src.map_to_molecule:tag_exclusions"],
           rejects=(), selector_only=True, must_cover=["repeat", "other library between", "mixed exclusions between", "failing run between"],
           outside=["hash randomisation across processes", "histories longer than two preceding runs"],
           cfg={"path_timeout_s": 300},
           bounds={"quick": dict(targets=[("martini3", "PEO:4"), ("martini3", "PS:3")]),
                   "thorough": dict(targets=[("martini3", "PEO:4"), ("martini3", "PS:3"), ("martini2", "PEO:3"), ("martini3", "PS:2 PEO:2")])},
           budget={"quick": 280, "thorough": 1500})
def history(sx, B):
    """Real gen_params with the shipped libraries, with real files in a per-path temp dir: a target run is performed in a fresh
    interpreter state and again after a solver-chosen history of up to two other gen_params calls in the same process (another
    library, a sequence that triggers exclusion retagging, a failing call, re-use of the same input list object); the two output
    files must be byte-identical apart from the command-line header."""
    lib, seq = sx.sel("target", B["targets"])
    hist = sx.sel("history", [["repeat"], ["other library"], ["mixed exclusions"], ["failing"], ["other library", "mixed exclusions"],
                              ["mixed exclusions", "repeat"]])
    d = tempfile.mkdtemp(prefix="pverif_", dir=os.environ.get("TMPDIR"))
    shared_inpath = []

    def run(lib, seq, out, fail=False):
        with patched(al, tqdm=_Tqdm):
            gen_itp.gen_params(name="mol", outpath=Path(d) / out, inpath=shared_inpath, lib=[lib],
                               seq=seq.split() if not fail else ["NOSUCHRES:2"])
        return (Path(d) / out).read_text().split("\n", 1)[1]
    try:
        first = run(lib, seq, "first.itp")
        for k, h in enumerate(hist):
            if h == "repeat":
                run(lib, seq, "h%d.itp" % k)
                sx.cover("repeat")
            elif h == "other library":
                run("martini2" if lib != "martini2" else "martini3", "PEO:3", "h%d.itp" % k)
                sx.cover("other library between")
            elif h == "mixed exclusions":
                run("martini3", "PS:2 PEO:2", "h%d.itp" % k)
                sx.cover("mixed exclusions between")
            else:
                try:
                    run(lib, seq, "h%d.itp" % k, fail=True)
                except Exception:
                    pass
                sx.cover("failing run between")
        again = run(lib, seq, "again.itp")
    finally:
        shutil.rmtree(d, ignore_errors=True)
    sx.claim(first == again, "a run after other runs in the same process gives the identical file (apart from the header)",
             lambda: "target %s %s after %r: files differ (%d vs %d characters)" % (lib, seq, hist, len(first), len(again)))
    sx.claim(shared_inpath == [], "the caller's input list is not modified", lambda: repr(shared_inpath))


HASH_SCRIPT = r"""
import sys, json
sys.path.insert(0, %(root)r)
import logging
logging.disable(logging.CRITICAL)
from harness.C13 import pipeline, canonical
from harness.ffgen import simple_block, multi_res_block, block_text_ff, block_text_itp, parse_ff, GRAPHS, residue_graph
out = []
specs = {"A": simple_block("A", 2, nrexcl=2), "B": simple_block("B", 3, multi=True)}
links = ""
for x in ("A", "B"):
    for y in ("A", "B"):
        links += '[ link ]\nresname "A|B"\n[ bonds ]\n%%s +%%s 1 0.40 400\n' %% (specs[x].atoms[-1][0], specs[y].atoms[0][0])
for keys in (["zeta", "alpha", "mid", "beta"], ["n3", "n1", "n4", "n2"], [("t", 1), ("t", 0), ("u", 5), ("s", 2)]):
    for shape in ("path", "star", "cycle"):
        ff = parse_ff([("ff", block_text_ff(specs["A"])), ("itp", block_text_itp(specs["B"])), ("ff", links)])
        meta = residue_graph(4, GRAPHS[4][shape], ["A", "B", "B", "A"], [2, 1, 4, 3], keys=keys, ff=ff)
        atoms, inters, nrexcl = pipeline(ff, meta)
        out.append([repr(atoms), sorted(repr(k) + "x%%d" %% v for k, v in inters.items()), nrexcl])
# doubled multi-residue fragment with string keys (set order of strings depends on the hash seed)
from polyply.src.map_to_molecule import MapToMolecule
mspec = multi_res_block("MUL")
for keys in (["d", "b", "c", "a"], ["k9", "k2", "k7", "k4"], ["w", "x", "y", "z"]):
    ffm = parse_ff([("itp", block_text_itp(mspec))])
    m = residue_graph(4, [(0, 1), (1, 2), (2, 3)], ["MA", "MB", "MA", "MB"], [1, 2, 3, 4], keys=keys, from_itp={i: "MUL" for i in range(4)}, ff=ffm)
    try:
        MapToMolecule(ffm).run_molecule(m)
        a = canonical(m.molecule)
        graphs = sorted((m.nodes[k]["resid"], sorted(m.nodes[k]["graph"].nodes)) for k in m.nodes)
        out.append([repr(a[0]), sorted(repr(k) for k in a[1]), graphs])
    except Exception as e:
        out.append(["EXC", type(e).__name__])
print(json.dumps(out))
"""


@condition("C13.hash_seed",
           anchors=[], rejects=(), selector_only=True, must_cover=["compared"],
           outside=["more than the listed inputs"],
           bounds={"quick": dict(seeds=[1, 2, 3]), "thorough": dict(seeds=[1, 2, 3, 4, 5, 6, 7, 8])})
def hash_seed(sx, B):
    """The pipeline is run in fresh interpreter processes with different PYTHONHASHSEED values on residue graphs with string and
    tuple node keys (whose set/dict iteration order depends on the hash seed), incl. a doubled multi-residue fragment: the canonical
    output must not depend on the hash seed."""
    import subprocess, sys, os, json
    root = os.path.dirname(os.path.dirname(os.path.abspath(__file__)))
    results = []
    for seed in B["seeds"]:
        env = dict(os.environ)
        env["PYTHONHASHSEED"] = str(seed)
        p = subprocess.run([sys.executable, "-c", HASH_SCRIPT % dict(root=root)], capture_output=True, text=True, env=env, timeout=300)
        if p.returncode != 0:
            raise symx.HarnessError("hash-seed subprocess failed: %s" % p.stderr[-400:])
        results.append(json.loads(p.stdout.strip().split("\n")[-1]))
    sx.cover("compared")
    for seed, r in zip(B["seeds"][1:], results[1:]):
        for i, (x, y) in enumerate(zip(results[0], r)):
            sx.claim(x == y, "output independent of the hash seed of the process",
                     lambda: "input %d differs between PYTHONHASHSEED=%s and %s:\n%s\n%s" % (i, B["seeds"][0], seed, str(x)[:300], str(y)[:300]))
    sx.claim(all(r[0] != "EXC" for res in results for r in res), "no input crashes under any hash seed",
             lambda: repr([[r for r in res if r[0] == "EXC"] for res in results]))


@condition("C13.json_listing_order",
           anchors=["polyply.src.simple_seq_parsers:parse_json", "polyply.src.meta_molecule:MetaMolecule.from_sequence_file"],
           rejects=(), selector_only=True, must_cover=["without resids", "with resids"],
           outside=["graphs of more than 4 residues"],
           bounds={"quick": dict(nmax=4), "thorough": dict(nmax=4)})
def json_listing_order(sx, B):
    """Two .json sequence files that describe the same residue graph but list nodes and edges in another order (with and without
    residue ids in the file) are read by the real reader and run through the pipeline: the residue ids, residue names and the
    generated molecule are the same."""
    import json
    n = int(sx.int("n", 2, B["nmax"]))
    shape = sx.sel("shape", sorted(GRAPHS[n]))
    names = [sx.sel("res%d" % i, ["A", "B"]) for i in range(n)]
    with_resids = sx.sel("file_has_resids", [False, True])
    order = sx.sel("node_listing", list(itertools.permutations(range(n)))[:6])
    eorder = sx.sel("edge_listing", ["as given", "reversed and flipped"])
    sx.cover("with resids" if with_resids else "without resids")
    specs = {"A": simple_block("A", 2, multi=False), "B": simple_block("B", 3, multi=True)}
    ltexts = [LINKS[0].format(la=specs[x].atoms[-1][0], fa=specs[y].atoms[0][0]) for x in "AB" for y in "AB"]

    def run(node_order, flip):
        edges = GRAPHS[n][shape]
        if flip:
            edges = [(b, a) for a, b in edges][::-1]
        nodes = []
        for i in node_order:
            nd = {"id": i, "resname": names[i]}
            if with_resids:
                nd["resid"] = i + 1
            nodes.append(nd)
        g = {"directed": False, "multigraph": False, "graph": {}, "nodes": nodes,
             "links": [{"source": a, "target": b} for a, b in edges], "edges": [{"source": a, "target": b} for a, b in edges]}
        d = tempfile.mkdtemp(prefix="pverif_", dir=os.environ.get("TMPDIR"))
        try:
            (Path(d) / "seq.json").write_text(json.dumps(g))
            ff = parse_ff([("ff", block_text_ff(specs["A"])), ("itp", block_text_itp(specs["B"]))] + [("ff", t) for t in ltexts])
            from polyply.src.meta_molecule import MetaMolecule
            meta = MetaMolecule.from_sequence_file(ff, Path(d) / "seq.json", "x")
        finally:
            shutil.rmtree(d, ignore_errors=True)
        ids = sorted((k, meta.nodes[k]["resid"], meta.nodes[k]["resname"]) for k in meta.nodes)
        return ids, pipeline(ff, meta)
    ids1, out1 = run(list(range(n)), False)
    ids2, out2 = run(list(order), eorder != "as given")
    sx.claim(ids1 == [(i, i + 1, names[i]) for i in range(n)], "residue ids are the ones in the file, or node key + 1 when the file has none",
             lambda: repr(ids1))
    sx.claim(ids1 == ids2, "residue ids and names do not depend on the order in which the file lists the nodes",
             lambda: "listing %r: %r vs %r" % (order, ids1, ids2))
    sx.claim(out1 == out2, "the generated molecule does not depend on the listing order of nodes and edges in the file")


import harness.C01 as _c01      # noqa: E402


@condition("C13.termini_order",
           anchors=["polyply.src.apply_modifications:_patch_protein_termini", "polyply.src.apply_modifications:apply_mod"],
           rejects=(), selector_only=True, must_cover=["default termini", "relabelled", "residues not stored in residue-id order"],
           outside=["modifications that add atoms"],
           bounds={"quick": dict(seqs=[["ALA", "GLY", "LYS"], ["LYS", "ALA"]], starts=[1, 4]),
                   "thorough": dict(seqs=[["ALA", "GLY", "LYS"], ["LYS", "ALA"], ["LYS", "LYS", "ALA", "GLY"]], starts=[1, 2, 4, 30])})
def termini_order(sx, B):
    """Node keys and node insertion order do not decide which residues count as termini: the C01.modifications harness (absolute
    oracle: the residues with the smallest and the largest residue id get the default N-ter / C-ter) with relabelled keys and
    residues stored in reverse order."""
    _c01.modifications(sx, B)
