"""C02 - Links are applied exactly where their definition matches."""
import itertools
import networkx as nx
from pverif.harness import condition, patched
from pverif import symx
from harness.ffgen import parse_ff, GRAPHS, residue_graph
import polyply.src.apply_links as al
from polyply.src.map_to_molecule import MapToMolecule
from polyply.src.apply_links import ApplyLinks


class _Tqdm:
    def __init__(self, it=None, *a, **k):
        self.it = it

    def __iter__(self):
        return iter(self.it)


BLOCKS_FF = """[ moleculetype ]
A 1
[ atoms ]
1 TA 1 A BB 1 0.0 1.0
2 TS 1 A SC 2 0.0 1.0
[ bonds ]
BB SC 1 0.30 100
[ moleculetype ]
B 1
[ atoms ]
1 TB 1 B BB 1 0.0 1.0
[ moleculetype ]
C 1
[ atoms ]
1 TC 1 C BB 1 0.0 1.0
2 TC 1 C SC 2 0.0 1.0
[ bonds ]
BB SC 1 0.32 120
"""
# a residue with two atoms of the same name (only possible in .itp syntax): a link atom `BB` matches two atoms there
BLOCK_D_ITP = """[ moleculetype ]
D 1
[ atoms ]
1 TD 1 D BB 1 0.0 1.0
2 TD 1 D BB 2 0.0 1.0
[ bonds ]
1 2 1 0.31 110
"""

# ---- link catalogue: text + independent rule -------------------------------------------------------
# A rule gets the residue model R (names, rank = residue-id order position, adjacency with labels) and returns
# (interactions, replacements): interactions = set of (type, ((rank, atomname), ...), params-tuple); replacements = {(rank, atomname): {attr: val}}


def has(R, u, atom):
    return {"A": ["BB", "SC"], "B": ["BB"], "C": ["BB", "SC"], "D": []}[R["names"][u]].count(atom) == 1     # D: `BB` is ambiguous -> never exactly one


def plain_edge(R, u, v):
    return frozenset((u, v)) in R["edges"] and R["edges"][frozenset((u, v))] is None


def rule_next_bond(allowed, params, atoms=("BB", "BB")):
    def rule(R):
        out = set()
        for u, v in itertools.permutations(range(R["n"]), 2):
            if plain_edge(R, u, v) and R["rank"][v] == R["rank"][u] + 1 and R["names"][u] in allowed and R["names"][v] in allowed \
                    and has(R, u, atoms[0]) and has(R, v, atoms[1]):
                out.add(("bonds", ((R["rank"][u], atoms[0]), (R["rank"][v], atoms[1])), params))
        return out, {}
    return rule


def rule_angle3(R):
    out = set()
    for u, v, w in itertools.permutations(range(R["n"]), 3):
        if plain_edge(R, u, v) and plain_edge(R, v, w) and frozenset((u, w)) not in R["edges"] \
                and R["rank"][v] == R["rank"][u] + 1 and R["rank"][w] == R["rank"][u] + 2 \
                and all(R["names"][x] in "AB" and has(R, x, "BB") for x in (u, v, w)):
            out.add(("angles", ((R["rank"][u], "BB"), (R["rank"][v], "BB"), (R["rank"][w], "BB")), ("1", "120", "40")))
    return out, {}


def rule_later(R):
    out = set()
    for u, v in itertools.permutations(range(R["n"]), 2):
        if plain_edge(R, u, v) and R["rank"][v] > R["rank"][u] and R["names"][u] == "A" and R["names"][v] == "A":
            out.add(("bonds", ((R["rank"][u], "BB"), (R["rank"][v], "BB")), ("1", "0.70", "700")))
    return out, {}


def rule_star(R):
    out = set()
    for u, v in itertools.permutations(range(R["n"]), 2):
        if plain_edge(R, u, v) and R["names"][u] == "A" and R["names"][v] in "AB" and has(R, v, "BB"):
            out.add(("bonds", ((R["rank"][u], "SC"), (R["rank"][v], "BB")), ("1", "0.80", "800")))
    return out, {}


def rule_replace(R):
    inter, _ = rule_next_bond("AB", ("1", "0.45", "450"))(R)
    repl = {}
    for (_, ((ru, _a), (_rv, _b)), _) in inter:
        repl[(ru, "BB")] = {"atype": "Q"}
    return inter, repl


def rule_cap_after(first_rule):
    """single-residue link on A: BB gets atype CAP unless BB is bonded to the BB of an A residue with the next residue id
    (edges exist from the link applied before it)"""
    def rule(R):
        inter, _ = first_rule(R)
        bonded_next_A = set()
        for (_, ((ru, _a), (rv, _b)), _) in inter:
            v = [x for x in range(R["n"]) if R["rank"][x] == rv][0]
            if rv == ru + 1 and R["names"][v] == "A":
                bonded_next_A.add(ru)
        repl = {}
        for u in range(R["n"]):
            if R["names"][u] == "A" and R["rank"][u] not in bonded_next_A:
                repl[(R["rank"][u], "BB")] = {"atype": "CAP"}
        return inter, repl
    return rule


def rule_pattern(R):
    """bond BB +BB only if the +BB atom has atype TB (i.e. the next residue is B)"""
    inter, _ = rule_next_bond("AB", ("1", "0.60", "600"))(R)
    keep = set()
    for it in inter:
        rv = it[1][1][0]
        v = [x for x in range(R["n"]) if R["rank"][x] == rv][0]
        if R["names"][v] == "B":
            keep.add(it)
    return keep, {}


L_BOND = '[ link ]\nresname "A|B|D"\n[ bonds ]\nBB +BB 1 0.40 400\n'
L_BOND_A = '[ link ]\nresname "A"\n[ bonds ]\nBB +BB 1 0.41 410\n'
L_ANGLE = '[ link ]\nresname "A|B|D"\n[ angles ]\nBB +BB ++BB 1 120 40\n'
L_LATER = '[ link ]\nresname "A"\n[ bonds ]\nBB >BB 1 0.70 700\n'
L_STAR = '[ link ]\nresname "A|B"\n[ bonds ]\nSC *BB 1 0.80 800\n'
L_REPL = '[ link ]\nresname "A|B"\n[ atoms ]\nBB {"replace": {"atype": "Q"}}\n[ bonds ]\nBB +BB 1 0.45 450\n'
L_CAP = '[ link ]\nresname "A"\n[ atoms ]\nBB {"replace": {"atype": "CAP"}}\n[ non-edges ]\nBB +BB\n'
# the same end cap with a pattern that always holds for an A residue: a link is applied only if the non-edge criterion AND a pattern hold
L_CAP_PATTERN = '[ link ]\nresname "A"\n[ atoms ]\nBB {"replace": {"atype": "CAP"}}\n[ non-edges ]\nBB +BB\n[ patterns ]\nBB {"atype": "TA"}\n'
L_PREV = '[ link ]\nresname "A|B"\n[ bonds ]\nBB -BB 1 0.42 420\n'
L_PATTERN = '[ link ]\nresname "A|B"\n[ bonds ]\nBB +BB 1 0.60 600\n[ patterns ]\nBB +BB {"atype": "TB"}\n'
# a link with a pattern AND a replacement: where no pattern holds the link is vetoed as a whole, its replacement included
L_PATTERN_REPL = ('[ link ]\nresname "A|B"\n[ atoms ]\nBB {"replace": {"atype": "Q"}}\n[ bonds ]\nBB +BB 1 0.60 600\n'
                  '[ patterns ]\nBB +BB {"resname": "B"}\n')


def rule_pattern_replace(R):
    inter, _ = rule_pattern(R)
    return inter, {(it[1][0][0], "BB"): {"atype": "Q"} for it in inter}


L_OVER1 = '[ link ]\nresname "A|B"\n[ bonds ]\nBB +BB 1 0.40 400\n'
L_OVER2 = '[ link ]\nresname "A|B"\n[ bonds ]\nBB +BB 1 0.90 900\n'
L_OVER2_V2 = '[ link ]\nresname "A|B"\n[ bonds ]\nBB +BB 1 0.90 900 {"version": 2}\n'


L_REMOVE_START = '[ link ]\nresname "A"\n[ atoms ]\nSC {"replace": {"atomname": null}}\nBB {}\n[ non-edges ]\nBB -BB\n'
L_REMOVE_END = '[ link ]\nresname "A"\n[ atoms ]\nSC {"replace": {"atomname": null}}\nBB {}\n[ non-edges ]\nBB +BB\n'


def rule_remove(direction):
    """after the chain bonds: the SC atom of an A residue is removed unless BB is bonded to the BB of an A residue with the
    previous (direction -1) / next (+1) residue id"""
    def rule(R):
        inter, _ = rule_next_bond("ABD", ("1", "0.40", "400"))(R)
        keep = set()
        for (_, ((ru, _a), (rv, _b)), _) in inter:
            u = [x for x in range(R["n"]) if R["rank"][x] == ru][0]
            v = [x for x in range(R["n"]) if R["rank"][x] == rv][0]
            if direction == 1 and R["names"][v] == "A":
                keep.add(ru)
            if direction == -1 and R["names"][u] == "A":
                keep.add(rv)
        removed = {}
        for u in range(R["n"]):
            if R["names"][u] == "A" and R["rank"][u] not in keep:
                removed[(R["rank"][u], "SC")] = "removed"
        return inter, removed
    return rule


L_ATOM_RESNAME = '[ link ]\n[ atoms ]\nBB {"resname": "A"}\nSC {}\n+BB {"resname": "A"}\n[ bonds ]\nBB +BB 1 0.36 3600\n[ angles ]\nSC BB +BB 1 121 51\n'
L_GT_GTGT = '[ link ]\nresname "A|B|C"\n[ bonds ]\nBB >BB 1 0.33 500\nBB >>BB 1 0.44 600\n[ angles ]\n>BB BB >>BB 1 122 52\n'


def rule_atom_resname(R):
    """resname given on the backbone atoms only: both residues must be A although the side-chain atom carries no name"""
    out = set()
    for u, v in itertools.permutations(range(R["n"]), 2):
        if plain_edge(R, u, v) and R["rank"][v] == R["rank"][u] + 1 and R["names"][u] == "A" and R["names"][v] == "A":
            out.add(("bonds", ((R["rank"][u], "BB"), (R["rank"][v], "BB")), ("1", "0.36", "3600")))
            out.add(("angles", ((R["rank"][u], "SC"), (R["rank"][u], "BB"), (R["rank"][v], "BB")), ("1", "121", "51")))
    return out, {}


def rule_gt_gtgt(R):
    """centre residue (order 0) bonded to a later residue (>) and a still later one (>>), which are not bonded to each other"""
    out = set()
    for c, x, y in itertools.permutations(range(R["n"]), 3):
        if plain_edge(R, c, x) and plain_edge(R, c, y) and frozenset((x, y)) not in R["edges"] \
                and R["rank"][c] < R["rank"][x] < R["rank"][y] and all(R["names"][k] in "ABC" and has(R, k, "BB") for k in (c, x, y)):
            out.add(("bonds", ((R["rank"][c], "BB"), (R["rank"][x], "BB")), ("1", "0.33", "500")))
            out.add(("bonds", ((R["rank"][c], "BB"), (R["rank"][y], "BB")), ("1", "0.44", "600")))
            out.add(("angles", ((R["rank"][x], "BB"), (R["rank"][c], "BB"), (R["rank"][y], "BB")), ("1", "122", "52")))
    return out, {}


L_CIRCLE = '[ link ]\nresname "A|B"\n[ bonds ]\nBB >BB 1 0.95 950 {"edge": false}\n[ edges ]\nBB >BB {"linktype": "circle"}\n'


def rule_circle(R):
    """a link whose residue edge is labelled: applies only across residue-graph edges that carry the same label"""
    out = set()
    for u, v in itertools.permutations(range(R["n"]), 2):
        if R["edges"].get(frozenset((u, v)), 0) == "circle" and R["rank"][v] > R["rank"][u] and R["names"][u] in "AB" and R["names"][v] in "AB":
            out.add(("bonds", ((R["rank"][u], "BB"), (R["rank"][v], "BB")), ("1", "0.95", "950")))
    return out, {}


def rule_prev(R):
    out = set()
    for u, v in itertools.permutations(range(R["n"]), 2):
        if plain_edge(R, u, v) and R["rank"][v] == R["rank"][u] - 1 and R["names"][u] in "AB" and R["names"][v] in "AB":
            out.add(("bonds", ((R["rank"][u], "BB"), (R["rank"][v], "BB")), ("1", "0.42", "420")))
    return out, {}


# a link written for the block's own atom type of BB (as every link derived from a dangling .itp interaction is), listed after a
# link that replaces that atom type: link atoms are matched against the residue's block, so the earlier replacement does not hide it
L_TYPED = '[ link ]\nresname "A|B"\n[ atoms ]\nBB {"atype": "TA"}\nSC {}\n+BB {}\n[ angles ]\nSC BB +BB 1 123 53\n'


def rule_typed(R):
    out = set()
    for u, v in itertools.permutations(range(R["n"]), 2):
        if plain_edge(R, u, v) and R["rank"][v] == R["rank"][u] + 1 and R["names"][u] == "A" and R["names"][v] in "AB":
            out.add(("angles", ((R["rank"][u], "SC"), (R["rank"][u], "BB"), (R["rank"][v], "BB")), ("1", "123", "53")))
    return out, {}


def rule_union(*rules):
    def rule(R):
        inter, repl = set(), {}
        for r in rules:
            i, p = r(R)
            inter |= i
            repl.update(p)
        return inter, repl
    return rule


def rule_last_wins(R):
    inter, _ = rule_next_bond("AB", ("1", "0.90", "900"))(R)
    return inter, {}


CATALOGUE = {
    "next bond": (L_BOND, rule_next_bond("ABD", ("1", "0.40", "400"))),
    "next bond, A only": (L_BOND_A, rule_next_bond("A", ("1", "0.41", "410"))),
    "three-residue angle": (L_BOND + L_ANGLE, rule_union(rule_next_bond("ABD", ("1", "0.40", "400")), rule_angle3)),
    "later residue (>)": (L_LATER, rule_later),
    "other residue (*)": (L_STAR, rule_star),
    "previous residue (-1)": (L_PREV, rule_prev),
    "replace": (L_REPL, rule_replace),
    "end cap with non-edge": (L_BOND + L_CAP, rule_cap_after(rule_next_bond("ABD", ("1", "0.40", "400")))),
    "pattern": (L_PATTERN, rule_pattern),
    "pattern with replacement": (L_PATTERN_REPL, rule_pattern_replace),
    "end cap with non-edge and pattern": (L_BOND + L_CAP_PATTERN, rule_cap_after(rule_next_bond("ABD", ("1", "0.40", "400")))),
    "resname on some atoms only": (L_ATOM_RESNAME, rule_atom_resname),
    "labelled (circle) link": (L_CIRCLE, rule_circle),
    "centre with > and >> neighbours": (L_GT_GTGT, rule_gt_gtgt),
    "remove atom at chain start": (L_BOND + L_REMOVE_START, rule_remove(-1)),
    "remove atom at chain end": (L_BOND + L_REMOVE_END, rule_remove(1)),
    "replace, then a link typed on the replaced attribute": (L_REPL + L_TYPED, rule_union(rule_replace, rule_typed)),
    "same atoms, same version: last wins": (L_OVER1 + L_OVER2, rule_last_wins),
    "same atoms, different version: both": (L_OVER1 + L_OVER2_V2, rule_union(rule_next_bond("AB", ("1", "0.40", "400")), rule_next_bond("AB", ("1", "0.90", "900")))),
}
Q_LINKS = ["next bond", "three-residue angle", "later residue (>)", "other residue (*)", "replace", "end cap with non-edge",
           "same atoms, same version: last wins", "pattern", "remove atom at chain start", "remove atom at chain end",
           "resname on some atoms only", "centre with > and >> neighbours", "labelled (circle) link",
           "replace, then a link typed on the replaced attribute", "end cap with non-edge and pattern", "pattern with replacement"]


def observed(meta):
    """inter-residue interactions and attribute changes of the real result, on (rank, atomname) tuples"""
    mol = meta.molecule
    resids = sorted(set(mol.nodes[a]["resid"] for a in mol.nodes), key=lambda r: int(r) if not symx.is_sym(r) else 0)
    return mol


@condition("C02.catalogue",
           anchors=["polyply.src.apply_links:ApplyLinks.run_molecule", "polyply.src.apply_links:ApplyLinks.apply_link_between_residues",
                    "polyply.src.apply_links:match_link_and_residue_atoms", "polyply.src.apply_links:_check_relative_order",
                    "polyply.src.apply_links:_res_match", "polyply.src.apply_links:_linktype_match", "polyply.src.apply_links:_get_link_resnames"],
           rejects=(), must_cover=["applied", "not applied", "labelled edge", "ambiguous atom", "replaced", "vetoed", "atom removed"],
           stubs=["apply_links.tqdm -> plain iteration"],
           assumes=["residue ids >= 1"],
           outside=["links outside the catalogue", "explicit (by_atom_id) links", "callable parameters", "more than 4 residues"],
           bounds={"quick": dict(nmax=3, links=Q_LINKS, names=["A", "B"], dup=True),
                   "thorough": dict(nmax=4, links=sorted(CATALOGUE), names=["A", "B"], dup=True)},
           budget={"quick": 280, "thorough": 1500})
def catalogue(sx, B):
    """Real read_ff/read_polyply + MapToMolecule + ApplyLinks for a link taken from a catalogue (orders +1/+2/-1, >, *, residue-name
    choices, replace, non-edge veto, pattern veto, competing definitions with equal/different version) on a residue graph whose
    size, shape, residue names (incl. a residue with an ambiguous atom name), residue-id order, node labelling and one labelled
    edge are solver-chosen and whose residue-id offset is symbolic. Oracle: an independently written application rule per
    catalogue entry. The inter-residue interactions (atoms, parameters), the inter-residue edges and the changed atom attributes
    of the real result must equal the rule's - nothing missing, nothing extra."""
    lname = sx.sel("link", B["links"])
    n = int(sx.int("n", 2, B["nmax"]))
    shape = sx.sel("shape", sorted(GRAPHS[n]))
    extra = ["C"] if lname in ("resname on some atoms only", "centre with > and >> neighbours") else []
    names = [sx.sel("res%d" % i, B["names"] + extra + (["D"] if B["dup"] and i == 1 else [])) for i in range(n)]
    perm = sx.sel("resid_order", list(itertools.permutations(range(n)))[:6])
    keyf = sx.sel("node_keys", ["0..n-1", "strings"])
    label = sx.sel("labelled_edge", [None, 0])
    if lname.startswith("remove"):
        # atom removal rebuilds the residue graph by hashing residue ids: the offset cannot stay symbolic there
        start = sx.sel("start_concrete", [1, 5])
    else:
        start = sx.int("start", 1, 10 ** 6)
    text, rule = CATALOGUE[lname]
    ff = parse_ff([("ff", BLOCKS_FF), ("itp", BLOCK_D_ITP), ("ff", text)])
    keys = {"0..n-1": list(range(n)), "strings": ["n%d" % ((3 * i + 1) % 5) for i in range(n)]}[keyf]
    edges = GRAPHS[n][shape]
    meta = residue_graph(n, edges, names, [start + perm[i] for i in range(n)], keys=keys, ff=ff)
    elabels = {frozenset(e): None for e in edges}
    if label is not None:
        e = edges[label]
        meta.edges[(keys[e[0]], keys[e[1]])]["linktype"] = "circle"
        elabels[frozenset(e)] = "circle"
        sx.cover("labelled edge")
    if "D" in names:
        sx.cover("ambiguous atom")
    R = dict(n=n, names=names, rank=list(perm), edges=elabels)
    want_inter, want_repl = rule(R)
    what = lambda: "link %r on residues %r (rank %r, shape %s, label %r)" % (lname, names, list(perm), shape, label)
    MapToMolecule(ff).run_molecule(meta)
    with patched(al, tqdm=_Tqdm):
        ApplyLinks().run_molecule(meta)
    mol = meta.molecule
    removed = {k for k, v in want_repl.items() if v == "removed"}
    want_repl = {k: v for k, v in want_repl.items() if v != "removed"}
    # rank of an atom from its (symbolic) residue id
    rank_of_atom = {}
    for a in mol.nodes:
        r = mol.nodes[a]["resid"] - start
        rank_of_atom[a] = int(r)
    ranks_seen = sorted(set(rank_of_atom.values()))
    if not sx.claim(ranks_seen == list(range(n)), "atoms are numbered by the residue ids of the residue graph",
                    lambda: what() + ": residue ids of the atoms are start + %r" % ranks_seen):
        return
    # atoms present: all block atoms minus the removed ones
    want_atoms = sorted((perm[i], a) for i in range(n) for a in {"A": ["BB", "SC"], "B": ["BB"], "C": ["BB", "SC"], "D": ["BB", "BB"]}[names[i]]
                        if (perm[i], a) not in removed)
    got_atoms = sorted((rank_of_atom[a], mol.nodes[a]["atomname"]) for a in mol.nodes)
    if removed:
        sx.cover("atom removed")
    if not sx.claim(got_atoms == want_atoms, "atoms are removed exactly where an applicable link removes them",
                    lambda: what() + ": atoms %r expected %r" % (got_atoms, want_atoms)):
        return
    # intra-residue block interactions survive unless they touch a removed atom
    want_intra = sorted((perm[i], "bonds") for i in range(n) if names[i] in "ACD" and (perm[i], "SC") not in removed)
    got_intra = sorted((rank_of_atom[inter.atoms[0]], t) for t, lst in mol.interactions.items() for inter in lst
                       if len(set(rank_of_atom[a] for a in inter.atoms)) == 1)
    sx.claim(got_intra == want_intra, "block interactions are kept unless they touch a removed atom",
             lambda: what() + ": intra-residue interactions %r expected %r" % (got_intra, want_intra))
    tag = lambda a: (rank_of_atom[a], mol.nodes[a]["atomname"])
    got_inter = set()
    for t, lst in mol.interactions.items():
        for inter in lst:
            if len(set(rank_of_atom[a] for a in inter.atoms)) > 1:
                got_inter.add((t, tuple(tag(a) for a in inter.atoms), tuple(inter.parameters)))
    sx.cover("applied" if want_inter else "not applied")
    # several applications of one link may define the same atoms and version with different parameters (e.g. a residue that is
    # the '>' partner in one match and the '>>' partner in another): the statement leaves open which one survives
    alternatives = {}
    for (t, atoms, params) in want_inter:
        alternatives.setdefault((t, atoms), set()).add(params)
    conflicts = {k for k, v in alternatives.items() if len(v) > 1 and lname == "centre with > and >> neighbours"}
    want_cmp = set(x for x in want_inter if (x[0], x[1]) not in conflicts)
    got_cmp = set(x for x in got_inter if (x[0], x[1]) not in conflicts)
    sx.claim(got_cmp == want_cmp, "inter-residue interactions are exactly those of the matching link applications",
             lambda: what() + ": missing %r extra %r" % (sorted(want_cmp - got_cmp), sorted(got_cmp - want_cmp)))
    for key in conflicts:
        mine = [x for x in got_inter if (x[0], x[1]) == key]
        sx.claim(len(mine) == 1 and mine[0][2] in alternatives[key], "conflicting applications of one link on the same atoms leave exactly one of their definitions",
                 lambda: what() + ": %r" % (mine,))
    # edges between residues = pairs bonded by an applied interaction (consecutive atoms)
    want_edges = set()
    for (t, atoms, _) in want_inter:
        for x, y in zip(atoms[:-1], atoms[1:]):
            if x[0] != y[0]:
                want_edges.add(frozenset((x, y)))
    got_edges = set(frozenset((tag(a), tag(b))) for a, b in mol.edges if rank_of_atom[a] != rank_of_atom[b])
    sx.claim(got_edges == want_edges, "inter-residue edges are exactly those of the applied links",
             lambda: what() + ": %r expected %r" % (sorted(map(sorted, got_edges)), sorted(map(sorted, want_edges))))
    # attribute replacement
    base_atype = {("A", "BB"): "TA", ("A", "SC"): "TS", ("B", "BB"): "TB", ("D", "BB"): "TD", ("C", "BB"): "TC", ("C", "SC"): "TC"}
    for a in mol.nodes:
        nd = mol.nodes[a]
        exp = dict(atype=base_atype[(nd["resname"], nd["atomname"])])
        if nd["resname"] != "D":
            exp.update(want_repl.get(tag(a), {}))
        if tag(a) in want_repl:
            sx.cover("replaced")
        sx.claim(nd["atype"] == exp["atype"], "atom attributes change only where an applicable link replaces them",
                 lambda: what() + ": atom %r has atype %r expected %r" % (tag(a), nd["atype"], exp["atype"]))
    if lname == "end cap with non-edge" and len(want_repl) < sum(1 for x in names if x == "A"):
        sx.cover("vetoed")
    if lname == "pattern" and len(want_inter) < len(rule_next_bond("AB", ("1", "0.60", "600"))(R)[0]):
        sx.cover("vetoed")


DANGLING = {
    "bond 1 3": ("bonds", (0, 2), ["1", "0.37", "7000"]),
    "bond 3 1 (next-residue atom first)": ("bonds", (2, 0), ["1", "0.37", "7000"]),
    "bond 2 3": ("bonds", (1, 2), ["1", "0.38", "7100"]),
    "angle 1 3 5": ("angles", (0, 2, 4), ["2", "130", "50"]),
    "angle 5 3 1 (own atom last)": ("angles", (4, 2, 0), ["2", "130", "50"]),
    "angle 2 1 3": ("angles", (1, 0, 2), ["2", "95", "30"]),
}
ITP_A = """[ moleculetype ]
A 1
[ atoms ]
1 TA 1 A BB 1 0.0 1.0
2 TS 1 A SC 1 0.0 1.0
[ bonds ]
1 2 1 0.30 100
1 3 1 0.35 5000
{bonds}
[ angles ]
{angles}
"""
B_FF = """[ moleculetype ]
B 1
[ atoms ]
1 TB 1 B BB 1 0.0 1.0
"""


@condition("C02.dangling",
           anchors=["polyply.src.polyply_parser:PolyplyParser._split_links_and_blocks", "polyply.src.polyply_parser:PolyplyParser._treat_link_atoms",
                    "polyply.src.polyply_parser:PolyplyParser.treat_link_multiple", "polyply.src.apply_links:ApplyLinks.run_molecule"],
           rejects=(), must_cover=["window fits", "chain end", "interrupted", "several molecule types in one .itp"],
           stubs=["apply_links.tqdm -> plain iteration"],
           outside=["dangling interactions spanning more than three residues", "monomers with more than 2 atoms"],
           bounds={"quick": dict(nmax=3, kinds=["bond 3 1 (next-residue atom first)", "bond 2 3", "angle 1 3 5", "angle 5 3 1 (own atom last)", "angle 2 1 3"]),
                   "thorough": dict(nmax=4, kinds=sorted(DANGLING))},
           budget={"quick": 200, "thorough": 900})
def dangling(sx, B):
    """Real read_polyply on a two-atom monomer .itp with dangling interactions (atom index beyond the monomer, listed in either
    direction) + MapToMolecule + ApplyLinks on chains in which a different residue may interrupt: a dangling interaction is present
    for every window of consecutive, connected monomer residues that fits inside the chain, on exactly the corresponding atoms
    with the same parameters, and absent at the chain end; the backbone bond `1 3` is always there so the chain stays connected."""
    kind = sx.sel("dangling", B["kinds"])
    n = int(sx.int("n", 2, B["nmax"]))
    names = [sx.sel("res%d" % i, ["A", "B"]) for i in range(n)]
    start = sx.int("start", 1, 10 ** 6)
    t, idx, params = DANGLING[kind]
    line = " ".join(str(i + 1) for i in idx) + " " + " ".join(params)
    text = ITP_A.format(bonds=line if t == "bonds" else "", angles=line if t == "angles" else "")
    # the other molecule type (no bonded sections at all) comes from a separate file or shares the monomer's .itp file
    layout = sx.sel("file_layout", ["B in its own .ff file", "B follows A in the same .itp", "B precedes A in the same .itp"])
    if layout == "B in its own .ff file":
        ff = parse_ff([("itp", text), ("ff", B_FF)])
    elif layout == "B follows A in the same .itp":
        ff = parse_ff([("itp", text + B_FF)])
        sx.cover("several molecule types in one .itp")
    else:
        ff = parse_ff([("itp", B_FF + text)])
        sx.cover("several molecule types in one .itp")
    meta = residue_graph(n, [(i, i + 1) for i in range(n - 1)], names, [start + i for i in range(n)], ff=ff)
    MapToMolecule(ff).run_molecule(meta)
    with patched(al, tqdm=_Tqdm):
        ApplyLinks().run_molecule(meta)
    mol = meta.molecule
    rank = {a: int(mol.nodes[a]["resid"] - start) for a in mol.nodes}
    tag = lambda a: (rank[a], mol.nodes[a]["atomname"])
    atomname = ["BB", "SC"]
    span = max(idx) // 2
    want = set()
    for r in range(n):
        window = list(range(r, r + span + 1))
        if window[-1] >= n:
            sx.cover("chain end")
            continue
        if any(names[x] != "A" for x in window):
            sx.cover("interrupted")
            continue
        sx.cover("window fits")
        want.add((t, tuple((r + i // 2, atomname[i % 2]) for i in idx), tuple(params)))
    # the backbone bond 1 3
    for r in range(n - 1):
        if names[r] == "A" and names[r + 1] == "A":
            want.add(("bonds", ((r, "BB"), (r + 1, "BB")), ("1", "0.35", "5000")))
    got = set()
    for tt, lst in mol.interactions.items():
        for inter in lst:
            if len(set(rank[a] for a in inter.atoms)) > 1:
                got.add((tt, tuple(tag(a) for a in inter.atoms), tuple(inter.parameters)))
    sx.claim(all(a in rank for a in mol.nodes) and len(mol.nodes) == sum(2 if x == "A" else 1 for x in names),
             "no atom beyond those of the blocks appears", lambda: "%d atoms" % len(mol.nodes))
    sx.claim(got == want, "dangling interactions behave as next-residue links: present for every window that fits, absent at the end",
             lambda: "%s on %r: missing %r extra %r" % (kind, names, sorted(want - got), sorted(got - want)))
    intra = sorted(rank[i.atoms[0]] for i in mol.interactions.get("bonds", []) if len(set(rank[a] for a in i.atoms)) == 1)
    sx.claim(intra == [r for r in range(n) if names[r] == "A"], "the monomer's own bond is kept once per residue")


@condition("C01.guarded_links",
           anchors=["polyply.src.apply_links:ApplyLinks.apply_link_between_residues"],
           rejects=(), must_cover=["replaced", "vetoed", "atom removed"],
           stubs=["apply_links.tqdm -> plain iteration"],
           bounds={"quick": dict(nmax=3, links=["replace", "end cap with non-edge", "remove atom at chain end"], names=["A", "B"], dup=False),
                   "thorough": dict(nmax=4, links=["replace", "end cap with non-edge", "remove atom at chain end", "remove atom at chain start", "pattern"],
                                    names=["A", "B"], dup=True)},
           budget={"quick": 200, "thorough": 900})
def guarded_links(sx, B):
    """C01's last clause on the C02 machinery: only atoms explicitly targeted by an *applicable* link differ from the block copy -
    a link that is vetoed by its non-edge / pattern guard changes no attribute and removes no atom."""
    catalogue(sx, B)
