"""C19 - dsDNA completion adds the antiparallel Watson-Crick complement."""
import networkx as nx
from pverif.harness import condition, patched
from pverif import symx
from polyply.src.meta_molecule import MetaMolecule
from polyply.src.simple_seq_parsers import _monomers_to_linear_nx_graph
import polyply.src.gen_dna as gen_dna

# independent statement of the pairing rule (Appendix B): A<->T, G<->C, suffix 5<->3
PAIR = {"A": "T", "T": "A", "G": "C", "C": "G"}


def comp(name):
    if len(name) not in (2, 3) or name[0] != "D" or name[1] not in PAIR:
        return None
    if len(name) == 3 and name[2] not in "53":
        return None
    suffix = {"": "", "5": "3", "3": "5"}[name[2:]]
    return "D" + PAIR[name[1]] + suffix


PLAIN = ["DA", "DT", "DG", "DC"]
ALL12 = PLAIN + [b + "5" for b in PLAIN] + [b + "3" for b in PLAIN]


class _Tqdm:
    def __init__(self, *a, **k):
        pass

    def update(self, n):
        pass

    def close(self):
        pass


def _build(names, circular, key0=0, with_resids=True):
    g = _monomers_to_linear_nx_graph(names)
    if not with_resids:
        # e.g. a .json sequence without resid entries: MetaMolecule numbers the residues itself (node + 1)
        for k in g.nodes:
            del g.nodes[k]["resid"]
    for i, j in list(g.edges):
        # every backbone edge carries labels, among them values that are false in a boolean context (0, False, "")
        g.edges[(i, j)].update({"seg": min(i, j), "flexible": False, "note": "" if min(i, j) % 2 else "n%d" % min(i, j)})
    if circular:
        n = len(names)
        g.add_edge(0, n - 1)
        g.edges[(0, n - 1)]["linktype"] = "circle"
    if key0:
        # the same strand with integer node keys that do not start at 0 (e.g. a .json sequence with 1-based ids)
        g = nx.relabel_nodes(g, {i: i + key0 for i in g.nodes})
    return MetaMolecule(g, mol_name="dna")


@condition("C19.complement",
           anchors=["polyply.src.gen_dna:complement_dsDNA", "polyply.src.gen_dna:_dna_edge_iterator",
                    "polyply.src.meta_molecule:MetaMolecule.add_monomer"],
           rejects=(),
           stubs=["gen_dna.tqdm -> silent"],
           outside=["strands longer than the bound", "non-integer node keys (the code computes new keys by integer arithmetic)", "circular strands of fewer than 3 residues",
                    "residue graphs that are not a single strand"],
           selector_only=True,
           must_cover=["linear", "circular", "unknown rejected", "n=1", "without resids"],
           bounds={"quick": dict(nmax=4, alphabet=["DA", "DT", "DG", "DC", "DA5", "DC3", "DG3", "DT5", "XX", "DA7", "DTX"], key0=[0, 1]),
                   "thorough": dict(nmax=4, alphabet=ALL12 + ["XX", "A", "DA7", "DTX", "DG53"], key0=[0, 1, 10])},
           budget={"quick": 200, "thorough": 1500})
def complement(sx, B):
    """Real complement_dsDNA on a strand built with the real linear builder: length n symbolic in 1..nmax, every residue name a
    selector over the alphabet (all names of the pairing table and unknown names), linear or circular. Oracle: independent
    pairing rule; 2n residues, first strand unchanged, residue n+k = complement(residue n+1-k), second strand connected in that
    order with labels copied, no edge between the strands, complementing the new strand recovers the original names, unknown
    names are rejected."""
    n = int(sx.int("n", 1, B["nmax"]))
    circular = sx.sel("circular", [False, True]) if n >= 3 else False
    names = [sx.sel("name%d" % i, B["alphabet"]) for i in range(n)]
    key0 = sx.sel("first_node_key", B["key0"])
    with_resids = sx.sel("input_has_resids", [True, False]) if key0 == 0 else True
    if not with_resids:
        sx.cover("without resids")
    meta = _build(names, circular, key0, with_resids)
    before_nodes = {k: dict(v) for k, v in meta.nodes(data=True)}
    before_edges = {frozenset(e[:2]): dict(e[2]) for e in meta.edges(data=True)}
    has_unknown = any(comp(x) is None for x in names)
    sx.cover("circular" if circular else "linear")
    if n == 1:
        sx.cover("n=1")
    with patched(gen_dna, tqdm=_Tqdm):
        try:
            gen_dna.complement_dsDNA(meta)
        except (IOError, KeyError) as err:
            sx.claim(has_unknown, "only unknown residue names are rejected", lambda: "%r rejected: %r" % (names, err))
            sx.cover("unknown rejected")
            return
    sx.claim(not has_unknown, "unknown residue names are rejected", lambda: "%r accepted" % (names,))
    nodes = list(meta.nodes)
    if not sx.claim(len(nodes) == 2 * n, "2n residues", lambda: "%d residues for n=%d" % (len(nodes), n)):
        return
    # first strand unchanged
    for k, attrs in before_nodes.items():
        sx.claim(k in meta.nodes and all(meta.nodes[k].get(a) == v for a, v in attrs.items()), "first strand unchanged")
    by_resid = {}
    for k in meta.nodes:
        by_resid.setdefault(meta.nodes[k]["resid"], []).append(k)
    if not sx.claim(sorted(by_resid) == list(range(1, 2 * n + 1)) and all(len(v) == 1 for v in by_resid.values()),
                    "residue ids are 1..2n, each once", lambda: "resids %r" % sorted((meta.nodes[k]["resid"]) for k in meta.nodes)):
        return
    node_of = {r: v[0] for r, v in by_resid.items()}
    for k in range(1, n + 1):
        want = comp(names[n - k])       # residue n+1-k is names[n-k]
        got = meta.nodes[node_of[n + k]]["resname"]
        sx.claim(got == want, "residue n+k is the complement of residue n+1-k with terminal roles exchanged",
                 lambda: "k=%d: %r, expected %r for strand %r" % (k, got, want, names))
    # edges: first strand edges as before, second strand path (+ closing edge), nothing between strands
    want_edges = dict(before_edges)
    for k in range(1, n):
        src = frozenset((node_of[n + 1 - k], node_of[n - k]))      # original edge between residues n+1-k and n-k
        want_edges[frozenset((node_of[n + k], node_of[n + k + 1]))] = dict(before_edges[src])
    if circular:
        want_edges[frozenset((node_of[n + 1], node_of[2 * n]))] = dict(before_edges[frozenset((node_of[1], node_of[n]))])
    got_edges = {frozenset(e[:2]): dict(e[2]) for e in meta.edges(data=True)}
    sx.claim(set(got_edges) == set(want_edges), "second strand connected in order, no edge between strands",
             lambda: "edges %r expected %r" % (sorted(map(sorted, got_edges)), sorted(map(sorted, want_edges))))
    sx.claim(all(got_edges[e] == want_edges[e] for e in want_edges if e in got_edges), "edge labels copied",
             lambda: "labels %r expected %r" % (got_edges, want_edges))
    # involution: complementing the added strand again recovers the original sequence
    second = [meta.nodes[node_of[n + k]]["resname"] for k in range(1, n + 1)]
    meta2 = _build(second, circular, key0)
    with patched(gen_dna, tqdm=_Tqdm):
        gen_dna.complement_dsDNA(meta2)
    r2 = {meta2.nodes[k]["resid"]: meta2.nodes[k]["resname"] for k in meta2.nodes}
    if not sx.claim(len(meta2.nodes) == 2 * n, "2n residues (second completion)"):
        return
    sx.claim([r2.get(n + k) for k in range(1, n + 1)] == names, "complementing the added strand recovers the original",
             lambda: "%r -> %r -> %r" % (names, second, [r2.get(n + k) for k in range(1, n + 1)]))


@condition("C19.gen_params",
           anchors=["polyply.src.gen_itp:gen_params", "polyply.src.gen_dna:complement_dsDNA", "polyply.src.simple_seq_parsers:parse_ig"],
           rejects=(), selector_only=True, must_cover=["linear", "circular", "-seq with -dsdna"],
           outside=["sequences other than the listed ones", "force fields other than the shipped martini2 DNA"],
           cfg={"path_timeout_s": 300},
           bounds={"quick": dict(seqs=["ACGT", "GGA", "TTTCA"]), "thorough": dict(seqs=["ACGT", "GGA", "TTTCA", "AT", "CCGGTA", "GATTACA"])},
           budget={"quick": 280, "thorough": 900})
def gen_params_dsdna(sx, B):
    """Real gen_params -dsdna with the shipped martini2 DNA library on .ig sequence files (linear and circular): the written .itp
    holds 2n residues, the second strand is the antiparallel Watson-Crick complement with the terminal roles exchanged, both
    strands are bonded internally in order (a circular strand is closed) and no bond joins the two strands."""
    import os, shutil, tempfile
    from pathlib import Path
    import polyply.src.gen_itp as gi
    import polyply.src.apply_links as al
    seq = sx.sel("sequence", B["seqs"])
    circular = sx.sel("circular", [False, True]) if len(seq) >= 3 else False
    via_seq = (not circular) and sx.sel("sequence_given_by", ["file", "-seq on the command line"]) != "file"
    if via_seq:
        sx.cover("-seq with -dsdna")
    sx.cover("circular" if circular else "linear")
    n = len(seq)
    d = tempfile.mkdtemp(prefix="pverif_", dir=os.environ.get("TMPDIR"))
    try:
        (Path(d) / "s.ig").write_text("; DNA sequence\n; c\ntitle\n%s%s\n" % (seq, "2" if circular else "1"))

        class _T:
            def __init__(self, it=None, *a, **k):
                self.it = it

            def __iter__(self):
                return iter(self.it)

            def update(self, n):
                pass

            def close(self):
                pass
        with patched(al, tqdm=_T), patched(gen_dna, tqdm=_T):
            if via_seq:
                names_ = ["D" + c for c in seq]
                names_[0] += "5"
                names_[-1] += "3"
                gi.gen_params(name="dna", outpath=Path(d) / "out.itp", lib=["martini2"], seq=["%s:1" % x for x in names_], dsdna=True)
            else:
                gi.gen_params(name="dna", outpath=Path(d) / "out.itp", lib=["martini2"], seq_file=Path(d) / "s.ig", dsdna=True)
        text = (Path(d) / "out.itp").read_text()
    finally:
        shutil.rmtree(d, ignore_errors=True)
    sec, res_of, names, bonds = None, {}, {}, set()
    for line in text.split("\n"):
        line = line.split(";")[0].strip()
        if not line or line.startswith("#"):
            continue
        if line.startswith("["):
            sec = line.strip("[] ")
            continue
        tok = line.split()
        if sec == "atoms":
            res_of[int(tok[0])] = int(tok[2])
            names[int(tok[2])] = tok[3]
        elif sec in ("bonds", "constraints"):
            a, b = res_of[int(tok[0])], res_of[int(tok[1])]
            if a != b:
                bonds.add(frozenset((a, b)))
    first = ["D" + c for c in seq]
    if not circular:
        first[0] += "5"
        first[-1] += "3"
    want = list(first) + [comp(first[n - k]) for k in range(1, n + 1)]
    got = [names.get(r) for r in range(1, 2 * n + 1)]
    sx.claim(sorted(names) == list(range(1, 2 * n + 1)), "the .itp holds 2n residues", lambda: repr(sorted(names)))
    sx.claim(got == want, "the second strand is the antiparallel complement with terminal roles exchanged", lambda: "%s: %r expected %r" % (seq, got, want))
    want_bonds = set(frozenset((r, r + 1)) for r in range(1, n)) | set(frozenset((r, r + 1)) for r in range(n + 1, 2 * n))
    if circular:
        want_bonds |= {frozenset((1, n)), frozenset((n + 1, 2 * n))}
    sx.claim(bonds == want_bonds, "both strands are bonded in order, a circular strand is closed, and no bond joins the strands",
             lambda: "%s circular=%r: %r expected %r" % (seq, circular, sorted(map(sorted, bonds)), sorted(map(sorted, want_bonds))))
