"""C15 - One centred template and size per distinct residue; user values win."""
import itertools
import numpy as np
import networkx as nx
from vermouth.molecule import Interaction
from pverif.harness import condition, patched
from pverif import symx
from pverif.symx import sym_and, sym_or, sym_not
from harness.common import top_text, topology_from_text, moltype_text
from harness.npshim import NP
import polyply.src.virtual_site_builder as vsb
import polyply.src.linalg_functions as lf
import polyply.src.minimizer as minimizer
import polyply.src.generate_templates as gt
import polyply.src.check_residue_equivalence as cre
from polyply.src.build_file_parser import read_build_file


def pt(sx, name):
    return np.array([sx.real("%s%s" % (name, a)) for a in "xyz"], dtype=object)


def dot(a, b):
    return a[0] * b[0] + a[1] * b[1] + a[2] * b[2]


def cross(a, b):
    return np.array([a[1] * b[2] - a[2] * b[1], a[2] * b[0] - a[0] * b[2], a[0] * b[1] - a[1] * b[0]], dtype=object)


def veq(sx, a, b, label):
    ok = True
    for i in range(3):
        ok &= bool(sx.claim(sx.eq(a[i], b[i]), label))
    return ok


@condition("C15.virtual_sites",
           anchors=["polyply.src.virtual_site_builder:vs2", "polyply.src.virtual_site_builder:vs3", "polyply.src.virtual_site_builder:vs3fd",
                    "polyply.src.virtual_site_builder:vs3out", "polyply.src.virtual_site_builder:vs4fdn", "polyply.src.virtual_site_builder:vsn1",
                    "polyply.src.virtual_site_builder:vs3fad", "polyply.src.virtual_site_builder:construct_vs"],
           replay=True, must_cover=["2", "3", "3fd", "3fad", "3out", "4fdn", "n"],
           stubs=["virtual_site_builder.float -> identity (parameters stay symbolic)",
                  "virtual_site_builder.norm -> arbitrary positive value per call with recorded argument, for 3fad and 4fdn (3fd is checked with the real norm)"],
           assumes=["defining vectors are non-degenerate (norms > 0)", "cos/sin of the 3fad angle are an arbitrary pair with c^2+s^2=1"],
           outside=["IEEE rounding"],
           cfg={"timeout_ms": 30000},
           bounds={"quick": {}, "thorough": {}})
def virtual_sites(sx, B):
    """Real construct_vs / vs2 / vs3 / vs3fd / vs3fad / vs3out / vs4fdn / vsn with symbolic atom positions and parameters: the site
    sits where the GROMACS manual constructs it (formulas written independently: weights for 2/3/n, defining relations for the
    normalised constructions - distance from atom i, collinearity / orthogonality, orientation)."""
    kind = sx.sel("kind", ["2", "3", "3fd", "3fad", "3out", "4fdn", "n"])
    sx.cover(kind)
    ri, rj, rk, rl = pt(sx, "i"), pt(sx, "j"), pt(sx, "k"), pt(sx, "l")
    a, b, c = sx.real("a"), sx.real("b"), sx.real("c")
    pos = {"v": None, "i": ri, "j": rj, "k": rk, "l": rl}
    with patched(vsb, float=lambda x: x):
        if kind == "2":
            x = vsb.construct_vs("virtual_sites2", Interaction(atoms=["v", "i", "j"], parameters=["1", a], meta={}), pos)
            veq(sx, x, (1 - a) * ri + a * rj, "vs2: x = (1-a) x_i + a x_j")
        elif kind == "3":
            x = vsb.construct_vs("virtual_sites3", Interaction(atoms=["v", "i", "j", "k"], parameters=["1", a, b], meta={}), pos)
            veq(sx, x, (1 - a - b) * ri + a * rj + b * rk, "vs3: x = (1-a-b) x_i + a x_j + b x_k")
        elif kind == "n":
            x = vsb.construct_vs("virtual_sitesn", Interaction(atoms=["v", "i", "j", "k", "l"], parameters=["1"], meta={}), pos)
            veq(sx, 4 * x, ri + rj + rk + rl, "vsn: centre of geometry of the constructing atoms")
        elif kind == "3out":
            x = vsb.construct_vs("virtual_sites3", Interaction(atoms=["v", "i", "j", "k"], parameters=["4", a, b, c], meta={}), pos)
            rij, rik = rj - ri, rk - ri
            veq(sx, x, ri + a * rij + b * rik + c * cross(rij, rik), "vs3out: x = x_i + a r_ij + b r_ik + c (r_ij x r_ik)")
        elif kind == "3fd":
            u = (rj - ri) + a * (rk - rj)
            sx.assume(dot(u, u) > 0, "defining vectors are non-degenerate (norms > 0)")
            x = vsb.construct_vs("virtual_sites3", Interaction(atoms=["v", "i", "j", "k"], parameters=["2", a, b], meta={}), pos)
            d = x - ri
            sx.claim(sx.eq(dot(d, d), b * b), "vs3fd: the site is at distance |b| from atom i")
            cr = cross(d, u)
            for i in range(3):
                sx.claim(sx.eq(cr[i], 0), "vs3fd: the site lies on the line through x_i along r_ij + a r_jk")
            sx.claim(sym_or(sx.eq(b, 0), sym_and(b > 0, dot(d, u) > 0), sym_and(b < 0, dot(d, u) < 0)) if symx.is_sym(b) else True,
                     "vs3fd: on the side given by the sign of b")
        elif kind == "4fdn":
            rij, rik, ril = rj - ri, rk - ri, rl - ri
            rja, rjb = a * rik - rij, b * ril - rij
            rm = cross(rja, rjb)
            rho, seen = _norm_stub(sx)
            with patched(vsb, norm=rho):
                x = vsb.construct_vs("virtual_sites4", Interaction(atoms=["v", "i", "j", "k", "l"], parameters=["2", a, b, c], meta={}), pos)
            sx.claim(len(seen) == 1, "vs4fdn: one normalisation")
            veq(sx, seen[0][0], rm, "vs4fdn: the normalised vector is (a r_ik - r_ij) x (b r_il - r_ij)")
            veq(sx, (x - ri) * seen[0][1], c * rm, "vs4fdn: x = x_i + c r_m / |r_m|")
        else:
            rij, rjk = rj - ri, rk - rj
            sx.assume(dot(rij, rij) > 0, "defining vectors are non-degenerate (norms > 0)")
            rn = rjk - rij * (dot(rij, rjk) / dot(rij, rij))
            theta, dd = sx.real("theta"), sx.real("d")
            rho, seen = _norm_stub(sx)
            with patched(vsb, norm=rho):
                x = vsb.construct_vs("virtual_sites3", Interaction(atoms=["v", "i", "j", "k"], parameters=["3", theta, dd], meta={}), pos)
            sx.claim(len(seen) == 2, "vs3fad: two normalisations")
            veq(sx, seen[0][0], rij, "vs3fad: first unit vector is along r_ij")
            veq(sx, seen[1][0] * dot(rij, rij), rn * dot(rij, rij), "vs3fad: second unit vector is along the component of r_jk perpendicular to r_ij")
            if symx.is_sym(theta):
                co, si = sx.trig(theta.deg2rad())
            else:
                import math
                co, si = math.cos(math.radians(theta)), math.sin(math.radians(theta))
            want = ri + dd * co * rij / seen[0][1] + dd * si * seen[1][0] / seen[1][1]
            veq(sx, x, want, "vs3fad: x = x_i + d cos(theta) r_ij/|r_ij| + d sin(theta) r_perp/|r_perp|")


def _norm_stub(sx):
    """norm() replaced by an arbitrary positive value per call (arguments recorded): the formulas are then polynomial"""
    seen = []

    def rho(v):
        r = sx.real("norm%d" % len(seen), 0, None, lo_strict=True)
        seen.append((v, r))
        return r
    return rho, seen


@condition("C15.dihedral_sign",
           anchors=["polyply.src.linalg_functions:_dih"],
           replay=False, must_cover=["positive", "negative"],
           stubs=["linalg_functions.vector_angle_degrees -> an arbitrary symbolic angle in [0, 180] (arguments recorded)",
                  "linalg_functions.u_vect -> identity (normalisation does not change the sign logic)"],
           bounds={"quick": {}, "thorough": {}})
def dihedral_sign(sx, B):
    """Real _dih (used for improper-dihedral targets of templates) on symbolic points: the magnitude is the angle between the
    normals of the planes (i,j,k) and (j,k,l) and the sign is the GROMACS convention, sign of r_ij . (r_kj x r_kl)."""
    A, Bp, C, D = pt(sx, "A"), pt(sx, "B"), pt(sx, "C"), pt(sx, "D")
    ang = sx.real("angle", 0, 180)
    sx.assume(ang > 0)
    seen = []

    def vad(n1, n2):
        seen.append((n1, n2))
        return ang
    with patched(lf, vector_angle_degrees=vad, u_vect=lambda v: v):
        res = lf._dih(A, Bp, C, D)
    rij, rkj, rkl = A - Bp, C - Bp, C - D
    triple = dot(rij, cross(rkj, rkl))
    if res > 0:
        sx.cover("positive")
        sx.claim(triple >= 0, "dihedral is positive only if r_ij . (r_kj x r_kl) >= 0 (GROMACS sign convention)")
        sx.claim(res == ang, "magnitude is the angle between the plane normals")
    else:
        sx.cover("negative")
        sx.claim(triple < 0, "dihedral is negative only if r_ij . (r_kj x r_kl) < 0 (GROMACS sign convention)")
        sx.claim(res == -ang, "magnitude is the angle between the plane normals")
    n1, n2 = seen[0]
    e1, e2 = cross(rij, rkj), cross(rkj, rkl)
    for i in range(3):
        sx.claim(sym_and(n1[i] == e1[i], n2[i] == e2[i]), "the angle is taken between the normals r_ij x r_kj and r_kj x r_kl")


RES_SHAPES = {"chain": [(0, 1), (1, 2)], "ring": [(0, 1), (1, 2), (2, 0)], "star": [(0, 1), (0, 2)], "other chain": [(0, 2), (2, 1)]}


@condition("C15.grouping",
           anchors=["polyply.src.check_residue_equivalence:group_residues_by_hash", "polyply.src.generate_templates:_extract_template_graphs"],
           rejects=(), selector_only=True, must_cover=["same", "different"],
           outside=["residues of more than 3 atoms", "hash collisions of the Weisfeiler-Lehman hash beyond this bound"],
           bounds={"quick": dict(), "thorough": dict()})
def grouping(sx, B):
    """Real group_residues_by_hash / _extract_template_graphs on a molecule of two residues with the same residue name whose atom
    names, atom order and bond graph are solver-chosen: residues with isomorphic atom-name-labelled bond graphs share one template
    key, residues with different atom names or different bonding get different keys; one template graph per key."""
    names1 = ("a", "b", "c")
    perm = sx.sel("atom_order_2", list(itertools.permutations(range(3))))
    rename = sx.sel("atom_names_2", [("a", "b", "c"), ("a", "b", "d"), ("a", "a", "b")])
    shape1 = sx.sel("bonds_1", sorted(RES_SHAPES))
    shape2 = sx.sel("bonds_2", sorted(RES_SHAPES))
    skip = sx.sel("skip_filter", [False, True])
    # residue 2 lists its atoms in another order; bonds refer to the role index (0,1,2)
    order2 = [rename[perm[i]] for i in range(3)]
    role_to_idx2 = {perm[i]: i for i in range(3)}
    lines = ["[ moleculetype ]", "M 1", "[ atoms ]"]
    for i, nm in enumerate(names1):
        lines.append("%d T 1 R %s %d 0.0 36.0" % (i + 1, nm, i + 1))
    for i, nm in enumerate(order2):
        lines.append("%d T 2 R %s %d 0.0 36.0" % (i + 4, nm, i + 4))
    lines.append("[ bonds ]")
    for x, y in RES_SHAPES[shape1]:
        lines.append("%d %d 1 0.3 100" % (x + 1, y + 1))
    for x, y in RES_SHAPES[shape2]:
        lines.append("%d %d 1 0.3 100" % (role_to_idx2[x] + 4, role_to_idx2[y] + 4))
    lines.append("3 4 1 0.3 100")
    top = topology_from_text(top_text({"M": "\n".join(lines)}, [("M", 1)], atomtypes=("",)))
    meta = top.molecules[0]
    graphs = gt._extract_template_graphs(meta, template_graphs={}, skip_filter=skip)
    keys = [meta.nodes[n]["template"] for n in meta.nodes]
    g1 = nx.Graph([(names1[x], names1[y]) for x, y in RES_SHAPES[shape1]])
    g1.add_nodes_from(names1)
    g2 = nx.Graph([(rename[x], rename[y]) for x, y in RES_SHAPES[shape2]]) if len(set(rename)) == 3 else None
    if g2 is not None:
        g2.add_nodes_from(rename)
        same = set(g1.nodes) == set(g2.nodes) and set(map(frozenset, g1.edges)) == set(map(frozenset, g2.edges))
    else:
        same = False
    what = lambda: "residue 1 %r %s, residue 2 %r (listed %r) %s" % (names1, shape1, rename, order2, shape2)
    if same:
        sx.cover("same")
        sx.claim(keys[0] == keys[1], "residues with the same atom-name-labelled bond graph share one template key", what)
    elif sorted(rename) != sorted(names1):
        sx.cover("different")
        sx.claim(keys[0] != keys[1], "residues with different atom names get different template keys", what)
    sx.claim(set(graphs) == set(keys), "one template graph per key", lambda: "%r vs %r" % (sorted(graphs), keys))
    for n, k in zip(meta.nodes, keys):
        sx.claim(sorted(nx.get_node_attributes(graphs[k], "atomname").values()) == sorted(nx.get_node_attributes(meta.nodes[n]["graph"], "atomname").values()),
                 "the template graph of a key has the atom names of the residues that carry the key")


@condition("C15.verdict",
           anchors=["polyply.src.minimizer:optimize_geometry", "polyply.src.minimizer:renew_vs", "polyply.src.minimizer:compute_bond",
                    "polyply.src.minimizer:compute_angle"],
           replay=False, must_cover=["optimised", "not optimised", "virtual site without bonded terms"],
           stubs=["scipy.optimize.minimize (minimizer) -> arbitrary symbolic positions", "angle, dih (minimizer) -> an arbitrary symbolic angle per call (sign convention of dih: C15.dihedral_sign)"],
           outside=["that the optimiser finds a geometry"],
           bounds={"quick": {}, "thorough": {}})
def verdict(sx, B):
    """Real optimize_geometry with the optimiser's result replaced by arbitrary symbolic positions: a template reported as
    optimised has every bond and constraint within 0.05 nm and every angle within 5 degrees of its target, its virtual site sits
    on its construction, and coordinates are returned per atom name."""
    P = {nm: pt(sx, nm) for nm in ("a", "b", "c", "v")}
    l1, l2 = sx.real("len_ab", 0, None, lo_strict=True), sx.real("len_bc", 0, None, lo_strict=True)
    ang0 = sx.real("angle_target", 0, 180)
    ang_val = sx.real("angle_value", 0, 180)
    from vermouth.molecule import Block
    block = Block()
    for nm in ("a", "b", "c", "v"):
        block.add_node(nm, atomname=nm, resname="R")
    block.interactions["bonds"] = [Interaction(atoms=["a", "b"], parameters=["1", l1, "1000"], meta={})]
    block.interactions["constraints"] = [Interaction(atoms=["b", "c"], parameters=["1", l2], meta={})]
    block.interactions["angles"] = [Interaction(atoms=["a", "b", "c"], parameters=["2", ang0, "50"], meta={})]
    block.interactions["virtual_sites2"] = [Interaction(atoms=["v", "a", "c"], parameters=["1", "0.5"], meta={})]
    dih0 = sx.real("improper_target", -180, 180)
    dih_val = sx.real("improper_value", -180, 180)
    block.interactions["dihedrals"] = [Interaction(atoms=["a", "b", "c", "v"], parameters=["2", dih0, "100"], meta={}),
                                       Interaction(atoms=["a", "b", "c", "v"], parameters=["9", "0", "1", "3"], meta={})]
    coords = {nm: np.array([0.1 * i, 0.2, 0.3]) for i, nm in enumerate(("a", "b", "c", "v"))}
    bare = sx.sel("bonded_terms", ["bond, constraint, angle, impropers", "none (atoms held by neighbouring residues only)"]) != "bond, constraint, angle, impropers"
    if bare:
        # a residue whose own atoms share no bonded term but which still has a virtual site to construct
        for t in ("bonds", "constraints", "angles", "dihedrals"):
            del block.interactions[t]
        sx.cover("virtual site without bonded terms")

    def fake_min(fun, x0, method=None, options=None):
        return {"x": np.array([P[nm][i] for nm in ("a", "b", "c", "v") for i in range(3)], dtype=object)}

    class _O:
        pass
    sc = _O()
    sc.optimize = _O()
    sc.optimize.minimize = fake_min
    with patched(minimizer, scipy=sc, float=lambda x: x, angle=lambda p, q, r: ang_val, dih=lambda p, q, r, t: dih_val), \
            patched(vsb, float=lambda x: float(x) if not symx.is_sym(x) else x):
        ok, out = minimizer.optimize_geometry(block, coords, ["bonds", "constraints", "angles", "dihedrals"])
    dab = sum((P["a"][i] - P["b"][i]) ** 2 for i in range(3))
    dbc = sum((P["b"][i] - P["c"][i]) ** 2 for i in range(3))
    for i in range(3):
        sx.claim(out["v"][i] * 2 == out["a"][i] + out["c"][i], "the virtual site of the returned template sits on its construction")
        if not bare:
            sx.claim(out["a"][i] == P["a"][i] and out["c"][i] == P["c"][i], "coordinates are returned per atom name")
    if bare:
        sx.claim(ok is True or bool(ok), "nothing to optimise: reported as optimised")
        return
    T = 0.05 + 1e-9       # the code compares with the float 0.05**2., which is not exactly 0.0025
    t = 0.05 - 1e-9
    if ok:
        sx.cover("optimised")
        # |dist - l| <= 0.05  <=>  (l-0.05)^2 <= dist^2 <= (l+0.05)^2 (for l >= 0.05), stated on squared distances
        sx.claim(sym_and(dab <= (l1 + T) * (l1 + T), sym_or(l1 <= T, dab >= (l1 - T) * (l1 - T))), "optimised: bond within 0.05 nm of its target")
        sx.claim(sym_and(dbc <= (l2 + T) * (l2 + T), sym_or(l2 <= T, dbc >= (l2 - T) * (l2 - T))), "optimised: constraint within 0.05 nm of its target")
        sx.claim(sym_and(ang_val - ang0 <= 5 + 1e-9, ang0 - ang_val <= 5 + 1e-9), "optimised: angle within 5 degrees of its target")
        sx.claim(sym_and(dih_val - dih0 <= 5 + 1e-9, dih0 - dih_val <= 5 + 1e-9), "optimised: improper dihedral within 5 degrees of its signed target")
    else:
        sx.cover("not optimised")
        sx.claim(sym_or(dab > (l1 + t) * (l1 + t), sym_and(l1 > t, dab < (l1 - t) * (l1 - t)),
                        dbc > (l2 + t) * (l2 + t), sym_and(l2 > t, dbc < (l2 - t) * (l2 - t)),
                        ang_val - ang0 > 5 - 1e-9, ang0 - ang_val > 5 - 1e-9, dih_val - dih0 > 5 - 1e-9, dih0 - dih_val > 5 - 1e-9),
                 "not optimised only if some term misses its tolerance")


BUILD_TMPL = """[ template ]
resname {res}
[ atoms ]
{atoms}
[ bonds ]
{bonds}
"""


@condition("C15.precedence",
           anchors=["polyply.src.build_file_parser:BuildDirector._template", "polyply.src.build_file_parser:BuildDirector.finalize_section",
                    "polyply.src.build_file_parser:BuildDirector._volume", "polyply.src.generate_templates:GenerateTemplates.run_molecule",
                    "polyply.src.generate_templates:GenerateTemplates.gen_templates", "polyply.src.generate_templates:compute_volume",
                    "polyply.src.generate_templates:map_from_CoG"],
           rejects=(), selector_only=True, must_cover=["user template", "user volume", "generated", "template defined twice"],
           stubs=["generate_templates.optimize_geometry -> returns the initial coordinates as optimised", "generate_templates._expand_inital_coords -> fixed distinct coordinates"],
           outside=["that the optimiser finds a geometry; the Kamada-Kawai layout"],
           bounds={"quick": dict(), "thorough": dict()})
def precedence(sx, B):
    """Real read_build_file ([ template ], [ volumes ]) + GenerateTemplates.run_system on a two-residue-type topology: for each
    residue type the solver chooses whether the build file supplies a template and/or a volume. Supplied templates (centred) and
    volumes are used unchanged, generated ones only fill the rest, every template has zero centre of geometry and one position
    per atom name, every size is positive, every residue points to the template of its own type."""
    give_t = {r: sx.sel("template_%s" % r, [False, True]) for r in ("RA", "RB")}
    give_v = {r: sx.sel("volume_%s" % r, [False, True]) for r in ("RA", "RB")}
    vol_key = sx.sel("volume_after_template", [True, False])
    mols = {"M": [("RA", ["a1", "a2"]), ("RB", ["b1", "b2", "b3"]), ("RA", ["a1", "a2"])]}
    text = top_text(mols, [("M", 2)], atomtypes=("RA", "RB"))
    top = topology_from_text(text)
    top.preprocess()
    user_pos = {"RA": {"a1": (0.0, 0.0, 0.0), "a2": (0.4, 0.0, 0.0)}, "RB": {"b1": (0.0, 0.0, 0.0), "b2": (0.3, 0.0, 0.0), "b3": (0.3, 0.3, 0.0)}}
    lines = []
    vlines = ["[ volumes ]"] + ["%s %s" % (r, {"RA": "0.77", "RB": "0.91"}[r]) for r in ("RA", "RB") if give_v[r]]
    if not vol_key and len(vlines) > 1:
        lines += vlines
    for r in ("RA", "RB"):
        if give_t[r]:
            atoms = "\n".join("%s T%s %s %s %s" % ((nm, r) + p) for nm, p in user_pos[r].items())
            names = list(user_pos[r])
            bonds = "\n".join("%s %s" % (names[i], names[i + 1]) for i in range(len(names) - 1))
            lines += BUILD_TMPL.format(res=r, atoms=atoms, bonds=bonds).split("\n")
            sx.cover("user template")
    if vol_key and len(vlines) > 1:
        lines += vlines
    if any(give_v.values()):
        sx.cover("user volume")
    read_build_file(lines, top, top.molecules)
    twice = sx.sel("template_RA_defined_again_in_a_second_build_file", [False, True]) and give_t["RA"]
    if twice:
        # the later definition counts; its coordinates are cut from a structure, i.e. not centred on the origin
        user_pos["RA"] = {"a1": (1.0, 1.2, 0.9), "a2": (1.0, 1.2, 1.35)}
        atoms = "\n".join("%s TRA %s %s %s" % ((nm,) + p) for nm, p in user_pos["RA"].items())
        read_build_file(BUILD_TMPL.format(res="RA", atoms=atoms, bonds="a1 a2").split("\n"), top, top.molecules)
        sx.cover("template defined twice")
    gen_coords_ = {"a1": np.array([1.0, 1.0, 1.0]), "a2": np.array([1.5, 1.0, 1.0]), "b1": np.array([2.0, 2.0, 2.0]),
                   "b2": np.array([2.4, 2.0, 2.0]), "b3": np.array([2.4, 2.5, 2.0])}
    # every call of the start-geometry generator gives another (scaled) geometry, as the random layout of the real one does: a
    # residue type must be generated once and that template be shared by all molecules
    calls = []

    def expand(block):
        k = len(calls)
        names_ = sorted(block.nodes[n]["atomname"] if "atomname" in block.nodes[n] else n for n in block.nodes)
        calls.append(tuple(names_))
        return {n: gen_coords_[n] * (1.0 + 0.25 * k) for n in block.nodes}
    with patched(gt, optimize_geometry=lambda block, coords, inter: (True, coords), _expand_inital_coords=expand):
        gt.GenerateTemplates(topology=top, max_opt=1, skip_filter=False).run_system(top)
    sx.claim(len(calls) == len(set(calls)), "each residue type is generated at most once for the whole system",
             lambda: "start geometries were generated for %r" % (calls,))
    scale_of = {}
    for k, c in enumerate(calls):
        scale_of.setdefault(c, 1.0 + 0.25 * k)
    for mi, meta in enumerate(top.molecules):
        for n in meta.nodes:
            nd = meta.nodes[n]
            r = nd["resname"]
            key = nd["template"]
            tmpl = meta.templates.get(key)
            what = lambda: "molecule %d residue %r (%s): template key %r, templates %r, volumes %r" % (mi, n, r, key, sorted(meta.templates), top.volumes)
            if not sx.claim(tmpl is not None and sorted(tmpl) == sorted(user_pos[r]), "every residue points to a template holding one position per atom name of its type", what):
                continue
            cog = sum(np.array(v, dtype=float) for v in tmpl.values()) / len(tmpl)
            sx.claim(bool(np.allclose(cog, 0, atol=1e-9)), "templates have zero centre of geometry", what)
            src = user_pos[r] if give_t[r] else {k: tuple(gen_coords_[k] * scale_of.get(tuple(sorted(user_pos[r])), 1.0)) for k in user_pos[r]}
            c0 = sum(np.array(v, dtype=float) for v in src.values()) / len(src)
            if not give_t[r]:
                sx.cover("generated")
            sx.claim(all(np.allclose(tmpl[k], np.array(src[k]) - c0, atol=1e-9) for k in src),
                     "a supplied template is used unchanged (centred); a generated one only where none is supplied", what)
            vol = top.volumes.get(key)
            sx.claim(vol is not None and vol > 0, "every size is positive", what)
            if give_v[r]:
                sx.claim(abs(vol - {"RA": 0.77, "RB": 0.91}[r]) < 1e-12, "a supplied size is used unchanged", what)


@condition("C15.size_coincident",
           anchors=["polyply.src.generate_templates:compute_volume"],
           rejects=(), selector_only=True, must_cover=["all atoms on one point"],
           outside=["more than three coincident atoms"],
           bounds={"quick": dict(), "thorough": dict()})
def size_coincident(sx, B):
    """'every size is positive': real compute_volume on residues whose atoms all sit on one point (a bead with virtual sites built on
    it, stacked beads) with solver-chosen radii in every order: the size is the largest of the radii - positive whenever one atom
    has a positive radius - and does not depend on the order of the atoms."""
    from vermouth.molecule import Block
    n = sx.sel("natoms", [1, 2, 3])
    radii = [sx.sel("radius%d" % i, [0.0, 0.3, 0.62]) for i in range(n)]
    block = Block()
    nb = {}
    coords = {}
    for i, r in enumerate(radii):
        block.add_node(i, atomname="x%d" % i, atype="T%d" % i, resname="R")
        nb[frozenset(["T%d" % i, "T%d" % i])] = {"nb1": r, "nb2": 1.0}
        coords[i] = np.array([0.5, 0.5, 0.5])      # (a point whose centre of geometry is exact in floating point)
    sx.cover("all atoms on one point")
    size = gt.compute_volume(block, coords, nb)
    sx.claim(abs(size - max(radii)) < 1e-12, "the size of a residue whose atoms coincide is the largest atom radius",
             lambda: "radii %r: size %r" % (radii, size))
