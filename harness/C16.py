"""C16 - The neighbour engine always reflects exactly the currently positioned residues."""
import itertools
import numpy as np
from pverif.harness import condition, patched
from pverif import symx
from pverif.symx import sym_and, sym_or, sym_not
from harness.common import meta_from_shape, make_topology, engine_views_consistent
from polyply.src.nonbond_engine import NonBondEngine, _lennard_jones_force

BOX = np.array([4.0, 5.0, 6.0])
# candidate positions: some close to each other, some across periodic faces, one pair closer than 0.1 nm
POINTS = np.array([[0.2, 0.3, 0.4], [3.9, 0.3, 0.4], [0.2, 4.8, 0.4], [0.75, 0.3, 0.4], [0.2, 0.3, 5.7],
                   [2.0, 2.5, 3.0], [2.05, 2.5, 3.0], [2.6, 2.5, 3.0], [1.0, 1.0, 1.0], [3.5, 4.5, 5.5]])
QUERY = np.array([[0.3, 0.4, 0.5], [2.3, 2.5, 3.0], [3.95, 4.95, 5.9], [0.05, 0.05, 0.05]])


def brute_force(eng, top_volumes, positioned, point, mol_idx, node, exclude, types):
    """reference: sum of LJ forces over positioned, non-excluded residues within the cut-off under the minimum-image
    convention; inf if any positioned residue within the cut-off is closer than 0.1 nm"""
    tot = np.zeros(3)
    overlap = False
    me = types[(mol_idx, node)]
    for key, pos in positioned.items():
        d = point - pos
        d = d - BOX * np.round(d / BOX)
        r = np.linalg.norm(d)
        if r > eng.cut_off:
            continue
        if r < 0.1:
            overlap = True
        if key in exclude:
            continue
        sig = (top_volumes[me] + top_volumes[types[key]]) / 2.0
        eps = 1.0
        tot = tot + 24 * eps / r * (2 * (sig / r) ** 12 - (sig / r) ** 6) * d / r
    return np.inf if overlap else tot


@condition("C16.histories",
           anchors=["polyply.src.nonbond_engine:NonBondEngine.add_positions", "polyply.src.nonbond_engine:NonBondEngine.remove_positions",
                    "polyply.src.nonbond_engine:NonBondEngine.concatenate_trees", "polyply.src.nonbond_engine:NonBondEngine.compute_force_point",
                    "polyply.src.nonbond_engine:NonBondEngine.get_point", "polyply.src.nonbond_engine:NonBondEngine.from_topology"],
           rejects=(), selector_only=True, must_cover=["add", "remove", "concatenate", "new tree", "re-add", "across face"],
           assumes=["add is only applied to residues that currently have no position (what every caller in polyply does)",
                    "scipy KD-trees are trusted (run concretely)"],
           outside=["histories longer than the bound", "coordinates outside the catalogue of points"],
           cfg={"path_timeout_s": 60},
           bounds={"quick": dict(nops=3, nops_big=2, npoints=2, big=[False, True]), "thorough": dict(nops=4, nops_big=2, npoints=2, big=[False, True])},
           budget={"quick": 240, "thorough": 1500})
def histories(sx, B):
    """Real NonBondEngine driven through every sequence of add(start flag) / remove(subset) / concatenate operations of the stated
    length on two small molecules (optionally after 5 001 pre-positioned residues so that a second search tree is opened); after
    every operation the four views of the engine agree, get_point returns the last value or infinity, and compute_force_point equals
    a brute-force minimum-image reference for several query points with and without exclusions."""
    big = sx.sel("start_with_5001", B["big"])
    vols = {"A": 0.5, "L": 0.8}
    m0 = meta_from_shape("path3", "M0", resnames=["A", "L", "A"])
    m1 = meta_from_shape("path3", "M1", resnames=["L", "A", "L"])
    metas = [m0, m1]
    types = {(mi, n): m.nodes[n]["resname"] for mi, m in enumerate(metas) for n in m.nodes}
    positioned = {}
    if big:
        filler = meta_from_shape((5001, []), "F", resnames=["A"] * 5001)
        # a dilute lattice far from the catalogue points (z around 3.0..3.4 avoided: lattice lives at x in [1.2, 3.4], y>=1.5)
        k = 0
        for node in filler.nodes:
            p = np.array([1.3 + 0.11 * (k % 18), 1.2 + 0.11 * ((k // 18) % 18), 1.1 + 0.11 * (k // 324)])
            filler.nodes[node]["position"] = p
            k += 1
        metas = [m0, m1, filler]
        for node in filler.nodes:
            types[(2, node)] = "A"
            positioned[(2, node)] = filler.nodes[node]["position"]
        # one residue of the first molecule is supplied as well: it lives in the first tree with the filler
        m0.nodes[0]["position"] = POINTS[8].copy()
        positioned[(0, 0)] = POINTS[8].copy()
    top = make_topology(metas, volumes=vols)
    eng = NonBondEngine.from_topology(metas, top, BOX)
    keys = [(mi, n) for mi in ((0,) if big else (0, 1)) for n in range(3)]
    ever = set()

    def check(where):
        ok, msg = engine_views_consistent(eng)
        if not sx.claim(ok, "engine views consistent after %s" % where, msg):
            return False
        for key in keys:
            p = eng.get_point(*key)
            if key in positioned:
                sx.claim(bool(np.array_equal(p, positioned[key])), "get_point returns the last position given")
            else:
                sx.claim(bool(np.all(np.isinf(p))), "get_point is undefined (inf) for an unpositioned residue")
        queries = list(QUERY) if not big else [QUERY[0], QUERY[1], np.array([1.3 + 0.11 * 5 + 0.03, 1.2 + 0.11 * 7, 1.1 + 0.11 * 2])]
        for qi, q in enumerate(queries):
            # queried on behalf of residues of two different types (sizes), one after the other on the same engine
            for qnode, excl in (((0, []), (0, [1]), (1, [])) if big else ((0, []), (0, [1]), (1, []), (1, [0]), (0, []))):
                got = eng.compute_force_point(q, 0, qnode, exclude=excl)
                want = brute_force(eng, vols, positioned, q, 0, qnode, set((0, e) for e in excl), types)
                same = (np.all(np.isinf(np.atleast_1d(got))) and np.all(np.isinf(np.atleast_1d(want)))) or \
                       (np.all(np.isfinite(np.atleast_1d(got))) and np.all(np.isfinite(np.atleast_1d(want)))
                        and np.allclose(np.zeros(3) + got, want, rtol=1e-9, atol=1e-9))
                sx.claim(bool(same), "force equals the brute-force minimum-image reference",
                         lambda: "after %s, query %r for residue %d excl %r: %r expected %r; positioned %r" % (
                             where, q, qnode, excl, got, want, {k: v for k, v in positioned.items() if k[0] < 2}))
        return True

    if not check("construction"):
        return
    for step in range(B["nops_big"] if big else B["nops"]):
        free = [k for k in keys if k not in positioned]
        ops = []
        if free:
            ops += ["add", "add_start"]
        if any(k in positioned for k in keys):
            ops += ["remove"]
        ops += ["concatenate", "stop"]
        op = sx.sel("op%d" % step, ops)
        if op == "stop":
            break
        if op in ("add", "add_start"):
            key = sx.sel("node%d" % step, free)
            pt = POINTS[sx.sel("point%d" % step, [i for i in range(len(POINTS))
                                                  if not any(np.array_equal(POINTS[i], v) for v in positioned.values())][:B["npoints"]])]
            ntrees = len(eng.position_trees)
            eng.add_positions(pt.copy(), key[0], key[1], start=(op == "add_start"))
            positioned[key] = pt.copy()
            sx.cover("add")
            if len(eng.position_trees) > ntrees:
                sx.cover("new tree")
            if key in ever:
                sx.cover("re-add")
            ever.add(key)
            if pt[0] > 3.8 or pt[1] > 4.7 or pt[2] > 5.6:
                sx.cover("across face")
        elif op == "remove":
            mol = sx.sel("mol%d" % step, [0] if big else [0, 1])
            subset = sx.sel("subset%d" % step, [[0], [1, 2], [0, 1, 2], [2, 0]])
            eng.remove_positions(mol, subset)
            for n in subset:
                positioned.pop((mol, n), None)
            sx.cover("remove")
        else:
            eng.concatenate_trees()
            sx.cover("concatenate")
        if not check("%s #%d" % (op, step)):
            return


@condition("C16.force_law",
           anchors=["polyply.src.nonbond_engine:_lennard_jones_force"],
           replay=False, must_cover=["law"],
           outside=["IEEE rounding"],
           bounds={"quick": {}, "thorough": {}})
def force_law(sx, B):
    """Real _lennard_jones_force with symbolic reals: the returned vector equals -grad of 4 eps ((sig/r)^12 - (sig/r)^6) at the
    separation vector (r the given distance, r^2 = |point - ref|^2), component by component."""
    p = np.array([sx.real("p" + a) for a in "xyz"], dtype=object)
    q = np.array([sx.real("q" + a) for a in "xyz"], dtype=object)
    sig = sx.real("sigma", 0, None, lo_strict=True)
    eps = sx.real("epsilon", 0, None, lo_strict=True)
    r = sx.real("r", 0, None, lo_strict=True)
    d = p - q
    sx.assume(r * r == d[0] * d[0] + d[1] * d[1] + d[2] * d[2])
    f = _lennard_jones_force(r, p, q, (sig, eps))
    sx.cover("law")
    # U(r) = 4 eps (sig^12 r^-12 - sig^6 r^-6); -dU/dx_i = 4 eps (12 sig^12 r^-13 - 6 sig^6 r^-7) * d_i / r
    for i in range(3):
        want = 4 * eps * (12 * sig ** 12 / r ** 14 - 6 * sig ** 6 / r ** 8) * d[i]
        sx.claim(f[i] == want, "force component %d is the negative gradient of the 12-6 potential" % i)


BOXES = [np.array([5.0, 5.0, 5.0]), np.array([3.0, 4.0, 5.5])]


@condition("C16.min_image",
           anchors=["polyply.src.nonbond_engine:NonBondEngine.pbc_min_dist"],
           replay=False, must_cover=["checked"],
           outside=["IEEE rounding", "boxes outside the catalogue", "points outside the box by more than one box length"],
           bounds={"quick": dict(boxes=BOXES[1:]), "thorough": dict(boxes=BOXES)},
           budget={"quick": 240, "thorough": 1200})
def min_image(sx, B):
    """Real NonBondEngine.pbc_min_dist on symbolic points in a catalogue box: symmetric in its arguments, unchanged when one
    point is shifted by a box vector along one axis, never larger than the direct distance, each component at most half a box edge."""
    from harness.C07 import _Eng
    box = sx.sel("box", B["boxes"])
    a = np.array([sx.real("a" + x) for x in "xyz"], dtype=object)
    b = np.array([sx.real("b" + x) for x in "xyz"], dtype=object)
    for v in (a, b):
        for i in range(3):
            sx.assume(sym_and(v[i] >= 0, v[i] < float(box[i])))
    eng = _Eng(None, {}, box)
    dab = eng.pbc_min_dist(a, b)
    dba = eng.pbc_min_dist(b, a)
    sx.cover("checked")
    # independent per-axis minimum image (forked in the harness so that every term stays linear)
    tot = 0
    for i in range(3):
        d = a[i] - b[i]
        if d < 0:
            d = -d
        L = float(box[i])
        m = d if d <= L - d else L - d
        sx.claim(sym_and(m <= d, m <= L / 2, m >= 0), "per-axis minimum image is at most the direct separation and half the box edge")
        tot = tot + m * m
    sx.claim(dab ** 2 == tot, "pbc_min_dist is the minimum-image distance (hence never larger than the direct distance)")
    sx.claim(dba ** 2 == tot, "minimum-image distance is symmetric")
    axis = sx.sel("shift_axis", [0, 1, 2])
    sign = sx.sel("shift_sign", [1, -1])
    shifted = a.copy()
    shifted[axis] = shifted[axis] + sign * float(box[axis])
    dsh = eng.pbc_min_dist(shifted, b)
    sx.claim(dsh ** 2 == tot, "minimum-image distance is periodic in each box vector")
