"""Pass-through replacement for a module-global `np` whose allocators keep symbolic entries (DESIGN 1.2)."""
import numpy as _np
from pverif import symx


def _has_sym(x):
    if symx.is_sym(x):
        return True
    if isinstance(x, (list, tuple)):
        return any(_has_sym(y) for y in x)
    if isinstance(x, _np.ndarray) and x.dtype == object:
        return True
    return False


class NP:
    """np shim: zeros() allocates object arrays (filled with 0.0), array(dtype=float64) keeps symbolic entries"""
    def __init__(self, **extra):
        self._extra = extra

    def __getattr__(self, k):
        if k in self._extra:
            return self._extra[k]
        return getattr(_np, k)

    @staticmethod
    def zeros(shape, dtype=None):
        a = _np.empty(shape, dtype=object)
        a.fill(0.0)
        return a

    @staticmethod
    def array(x, dtype=None, **kw):
        if _has_sym(x):
            return _np.array(x, dtype=object)
        return _np.array(x, dtype=dtype, **kw)
