"""C06 - Backmapping places rigid, centred, same-handed copies of the residue template."""
import numpy as np
import networkx as nx
from pverif.harness import condition, patched
from pverif import symx
from pverif.symx import sym_and, sym_or, sym_not, SymReal
from harness.common import top_text, topology_from_text
from harness.npshim import NP
import polyply.src.linalg_functions as lf
import polyply.src.backmap as backmap
import polyply.src.generate_templates as gt


def sym_matrix(sx, name, n):
    return np.array([[sx.real("%s_%s%d" % (name, a, j)) for j in range(n)] for a in "xyz"], dtype=object)


def det3(m):
    return (m[0][0] * (m[1][1] * m[2][2] - m[1][2] * m[2][1]) - m[0][1] * (m[1][0] * m[2][2] - m[1][2] * m[2][0])
            + m[0][2] * (m[1][0] * m[2][1] - m[1][1] * m[2][0]))


@condition("C06.rotation",
           anchors=["polyply.src.linalg_functions:_rotate_xyz", "polyply.src.linalg_functions:_matrix_multiplication"],
           replay=True, must_cover=["orthogonal", "applied"],
           stubs=["linalg_functions.np -> object-array shim for zeros/array(dtype=float64)"],
           assumes=["cos/sin of each angle are an arbitrary pair with c^2+s^2=1 (covers every angle)"],
           bounds={"quick": dict(ncols=[1, 2]), "thorough": dict(ncols=[1, 2, 3, 4])})
def rotation(sx, B):
    """Real _rotate_xyz (and _matrix_multiplication) with three abstract angles: R = rotate(I) satisfies R^T R = I and det R = 1
    (a proper rotation), R = Rz Ry Rx as documented, and rotating a generic symbolic 3 x n array equals R times that array."""
    tx, ty, tz = sx.real("theta_x"), sx.real("theta_y"), sx.real("theta_z")
    with patched(lf, np=NP()):
        eye = np.array([[1.0, 0.0, 0.0], [0.0, 1.0, 0.0], [0.0, 0.0, 1.0]], dtype=object)
        R = lf._rotate_xyz(eye, tx, ty, tz)
        for i in range(3):
            for j in range(i, 3):
                dot = sum(R[k][i] * R[k][j] for k in range(3))
                sx.claim(sx.eq(dot, 1 if i == j else 0), "R^T R = I (entry %d,%d)" % (i, j))
        sx.claim(sx.eq(det3(R), 1), "det R = +1 (proper rotation, handedness kept)")
        sx.cover("orthogonal")
        # documented composition: Rz * Ry * Rx
        cx, s_x = sx.trig_pair(tx)
        cy, s_y = sx.trig_pair(ty)
        cz, s_z = sx.trig_pair(tz)
        Rz = [[cz, -s_z, 0], [s_z, cz, 0], [0, 0, 1]]
        Ry = [[cy, 0, s_y], [0, 1, 0], [-s_y, 0, cy]]
        Rx = [[1, 0, 0], [0, cx, -s_x], [0, s_x, cx]]
        mm = lambda a, b: [[sum(a[i][k] * b[k][j] for k in range(3)) for j in range(3)] for i in range(3)]
        want = mm(mm(Rz, Ry), Rx)
        for i in range(3):
            for j in range(3):
                sx.claim(sx.eq(R[i][j], want[i][j]), "R = Rz Ry Rx (entry %d,%d)" % (i, j))
        n = sx.sel("ncols", B["ncols"])
        X = sym_matrix(sx, "X", n)
        Y = lf._rotate_xyz(X, tx, ty, tz)
        for i in range(3):
            for j in range(n):
                sx.claim(sx.eq(Y[i][j], sum(R[i][k] * X[k][j] for k in range(3))), "rotate(X) = R X (entry %d,%d)" % (i, j))
        sx.cover("applied")


RES4 = [("R4", ["a", "b", "c", "d"])]
MOLS = {"M1": [("R4", ["a", "b", "c", "d"])],
        "M2": [("R2", ["p", "q"]), ("R4", ["a", "b", "c", "d"]), ("R2", ["p", "q"])],
        "M3": [("R2", ["p", "q"]), ("R3", ["u", "v", "w"])],
        # residue numbering that restarts inside the molecule (residues are told apart by number and name)
        "M4": [("R2", ["p", "q"], 1), ("T2", ["p", "q"], 1)],
        "M5": [("R2", ["p", "q"], 1), ("R3", ["u", "v", "w"], 2), ("T2", ["p", "q"], 1)]}


class _Opt:
    pass


@condition("C06.placement",
           anchors=["polyply.src.backmap:Backmap._place_init_coords", "polyply.src.backmap:orient_template",
                    "polyply.src.linalg_functions:_rotate_xyz"],
           replay=True, must_cover=["neighbours", "no neighbour", "second copy", "earlier system backmapped"],
           stubs=["scipy.optimize.minimize (backmap) -> three arbitrary symbolic angles (every result the optimiser can return)",
                  "np.random.uniform (backmap) -> zeros", "backmap.np / linalg_functions.np -> object-array shim"],
           assumes=["the optimiser returns finite angles"],
           outside=["quality of the optimised orientation", "IEEE rounding", "templates of more than 4 atoms"],
           cfg={"timeout_ms": 30000, "path_timeout_s": 600},
           bounds={"quick": dict(cases=["single x2", "chain", "numbering restarts"]), "thorough": dict(cases=["single x2", "chain", "pair", "numbering restarts"])},
           budget={"quick": 280, "thorough": 1500})
def placement(sx, B):
    """Real Backmap.run_molecule (_place_init_coords + orient_template + rotate_xyz) on molecules read by the real reader, with a
    symbolic centred template per residue type (dict order different from the atom order), symbolic residue positions, symbolic
    backmapping factor and the optimiser's result replaced by three arbitrary angles. Claims: centre of geometry of the placed
    atoms equals the residue position; every pair distance^2 equals factor^2 x the template's; the signed volume of the atom
    quadruple equals factor^3 x the template's (same handedness); each atom takes the vector of its own atom name; a second copy of
    the same residue type is congruent to the first; templates are left unchanged."""
    case = sx.sel("case", B["cases"])
    fudge = sx.real("factor", 0, None, lo_strict=True)
    layout = {"single x2": [("M1", 2)], "chain": [("M2", 1)], "pair": [("M3", 1)], "numbering restarts": [("M4", 1), ("M5", 1)]}[case]
    top = topology_from_text(top_text(MOLS, layout, atomtypes=("R4", "R2", "R3", "T2")))
    # symbolic centred templates; key order deliberately differs from the atom order of the residue
    templates = {}
    for resname, names in (("R4", ["c", "a", "d", "b"]), ("R2", ["q", "p"]), ("R3", ["w", "u", "v"]), ("T2", ["p", "q"])):
        vecs = {}
        acc = np.array([0, 0, 0], dtype=object)
        for nm in names[:-1]:
            vecs[nm] = np.array([sx.real("t_%s_%s%s" % (resname, nm, a)) for a in "xyz"], dtype=object)
            acc = acc + vecs[nm]
        vecs[names[-1]] = -acc                 # centre of geometry at the origin by construction
        templates[resname] = {nm: vecs[nm] for nm in names}
    original = {r: {k: v.copy() for k, v in t.items()} for r, t in templates.items()}
    angle_sets = []

    current = {"key": None}
    angles_of = {}

    warm = {"on": False}

    def minimize(fun, x0, method=None, options=None):
        if warm["on"]:
            return {"x": [0.0, 0.0, 0.0]}
        k = len(angle_sets)
        ang = [sx.real("angle%d_%s" % (k, a)) for a in "xyz"]
        angle_sets.append(ang)
        angles_of[current["key"]] = ang
        return {"x": ang}
    real_orient = backmap.orient_template

    def orient(meta_molecule, current_node, template, built_nodes):
        if not warm["on"]:
            current["key"] = (id(meta_molecule), current_node)
        return real_orient(meta_molecule, current_node, template, built_nodes)

    class _O:
        pass
    sc = _O()
    sc.optimize = _O()
    sc.optimize.minimize = minimize

    class _R:
        @staticmethod
        def uniform(low=0, high=1, size=None):
            return np.zeros(size)
    k = 0
    for meta in top.molecules:
        meta.templates = templates
        for node in meta.nodes:
            nd = meta.nodes[node]
            nd["template"] = nd["resname"]
            nd["backmap"] = True
            nd["position"] = np.array([sx.real("cg%d_%s" % (k, a)) for a in "xyz"], dtype=object)
            k += 1
    shim = NP(random=_R)
    with patched(backmap, np=shim, scipy=sc, orient_template=orient), patched(lf, np=NP()):
        # history inside one process: an earlier system with the same residue names, atom names and bonds but another (concrete)
        # template geometry has been backmapped before; nothing of it may show in the system under test
        warm["on"] = True
        top0 = topology_from_text(top_text(MOLS, layout, atomtypes=("R4", "R2", "R3", "T2")))
        templates0 = {}
        for resname, t in templates.items():
            nms = list(t)
            vecs0 = {nm: np.array([1.0 + i, -1.0 * i, 0.5 * i], dtype=object) for i, nm in enumerate(nms[:-1])}
            vecs0[nms[-1]] = -sum(vecs0.values())
            templates0[resname] = {nm: vecs0[nm] for nm in nms}
        for meta in top0.molecules:
            meta.templates = templates0
            for kk, node in enumerate(meta.nodes):
                nd = meta.nodes[node]
                nd["template"] = nd["resname"]
                nd["backmap"] = True
                nd["position"] = np.array([1.0 * kk, 0.0, 0.0], dtype=object)
            backmap.Backmap(fudge_coords=0.5).run_molecule(meta)
        warm["on"] = False
        sx.cover("earlier system backmapped")
        for meta in top.molecules:
            backmap.Backmap(fudge_coords=fudge).run_molecule(meta)
    seen_r4 = 0
    res_idx = 0
    eye = np.array([[1.0, 0.0, 0.0], [0.0, 1.0, 0.0], [0.0, 0.0, 1.0]], dtype=object)
    for mi, meta in enumerate(top.molecules):
        if len(meta.nodes) > 1:
            sx.cover("neighbours")
        else:
            sx.cover("no neighbour")
        for node in meta.nodes:
            nd = meta.nodes[node]
            tmpl = original[nd["resname"]]
            atoms = sorted(nd["graph"].nodes, key=lambda a: meta.molecule.nodes[a]["index"])
            names = [meta.molecule.nodes[a]["atomname"] for a in atoms]
            pos = [meta.molecule.nodes[a]["position"] for a in atoms]
            cg = nd["position"]
            n = len(atoms)
            # (1) each atom takes factor x (R applied to the template vector of its own atom name), R being the real
            #     rotation matrix for the angles the optimiser returned for this residue
            ang = angles_of.get((id(meta), node))
            res_idx += 1
            if ang is None:
                # the code did not consult the optimiser for this residue (nothing to orient against): the identity is a proper rotation too
                R = eye
            else:
                with patched(lf, np=NP()):
                    R = lf._rotate_xyz(eye, ang[0], ang[1], ang[2])
            for i in range(n):
                for ax in range(3):
                    want = cg[ax] + fudge * sum(R[ax][k] * tmpl[names[i]][k] for k in range(3))
                    if not sx.claim(sx.eq(pos[i][ax], want), "atom takes the rotated, scaled template vector of its own atom name",
                                    lambda: "molecule %d residue %r atom %s" % (mi, node, names[i])):
                        return
            for ax in range(3):
                sx.claim(sx.eq(sum(p[ax] for p in pos), n * cg[ax]), "centre of geometry of the atoms equals the residue position")
            for i in range(n):
                for j in range(i + 1, n):
                    d2 = sum((pos[i][ax] - pos[j][ax]) ** 2 for ax in range(3))
                    t2 = sum((tmpl[names[i]][ax] - tmpl[names[j]][ax]) ** 2 for ax in range(3))
                    if not sx.claim(sx.eq(d2, fudge * fudge * t2), "pair distance is the template's (of the atoms' own names) times the factor"):
                        return
            if n == 4:
                vol = det3([[pos[i][ax] - pos[0][ax] for ax in range(3)] for i in (1, 2, 3)])
                tvol = det3([[tmpl[names[i]][ax] - tmpl[names[0]][ax] for ax in range(3)] for i in (1, 2, 3)])
                sx.claim(sx.eq(vol, fudge ** 3 * tvol), "signed volume is the template's times factor^3 (same handedness)")
                seen_r4 += 1
                if seen_r4 == 2:
                    sx.cover("second copy")
    for r, t in templates.items():
        for kname, v in t.items():
            for ax in range(3):
                sx.claim(sx.eq(v[ax], original[r][kname][ax]), "templates are not modified by backmapping")


@condition("C06.centred",
           anchors=["polyply.src.generate_templates:map_from_CoG", "polyply.src.linalg_functions:center_of_geometry"],
           replay=True, must_cover=["centred"],
           bounds={"quick": dict(natoms=[1, 2, 3, 4]), "thorough": dict(natoms=[1, 2, 3, 4, 5, 6])})
def centred(sx, B):
    """Real map_from_CoG on symbolic coordinates: the vectors sum to zero on every axis and differences between atoms are kept."""
    n = sx.sel("natoms", B["natoms"])
    coords = {"n%d" % i: np.array([sx.real("x%d%s" % (i, a)) for a in "xyz"], dtype=object) for i in range(n)}
    out = gt.map_from_CoG(coords)
    sx.cover("centred")
    sx.claim(list(out) == list(coords), "one vector per atom, keyed as given")
    for ax in range(3):
        sx.claim(sx.eq(sum(v[ax] for v in out.values()), 0), "template vectors have zero centre of geometry")
    keys = list(coords)
    for k in keys[1:]:
        for ax in range(3):
            sx.claim(sx.eq(out[k][ax] - out[keys[0]][ax], coords[k][ax] - coords[keys[0]][ax]), "relative positions unchanged")



import harness.C15 as _c15      # noqa: E402


@condition("C06.templates_centred",
           anchors=["polyply.src.generate_templates:GenerateTemplates.gen_templates", "polyply.src.generate_templates:map_from_CoG"],
           rejects=(), selector_only=True, must_cover=["user volume", "generated"],
           stubs=["as C15.precedence"], bounds={"quick": dict(), "thorough": dict()})
def templates_centred(sx, B):
    """Templates are centred whatever the build file supplies (the C15.precedence harness: real read_build_file +
    GenerateTemplates with every combination of supplied templates and volumes): every stored template has zero centre of
    geometry, so that the centre of a backmapped residue is the residue position."""
    _c15.precedence(sx, B)


import harness.C03 as _c03      # noqa: E402


@condition("C06.factor_wiring",
           anchors=["polyply.src.gen_coords:gen_coords"],
           replay=False, must_cover=["density"],
           stubs=["as C03.box_rule"], bounds={"quick": {}, "thorough": {}})
def factor_wiring(sx, B):
    """'scaled by the backmapping factor': the real body of gen_coords with its stages replaced by recording stubs (the C03.box_rule
    harness) and an arbitrary symbolic factor: the backmapping stage is configured with exactly the factor given to gen_coords
    (C06.placement then shows that the stage scales the template by the factor it is configured with)."""
    _c03.box_rule(sx, B)
