"""C18 - Build options select exactly the molecules and residues they name."""
import itertools
import numpy as np
import networkx as nx
from pverif.harness import condition, patched
from pverif import symx
from harness.common import top_text, topology_from_text, moltype_text, sentinel
import polyply.src.build_file_parser as bfp
import polyply.src.annotate_ligands as lig
import polyply.src.gen_coords as gen_coords
from polyply.src.build_file_parser import read_build_file
from polyply.src.annotate_ligands import parse_residue_spec, _find_nodes, AnnotateLigands

# molecule types: P = linear A-B-A-B (resids 1..4); G = graft whose atoms list residue 3 first; S = solvent
G_TEXT = """[ moleculetype ]
G 1
[ atoms ]
1 TA 3 A g1 1 0.0 36.0
2 TB 1 B g2 2 0.0 36.0
3 TA 2 A g3 3 0.0 36.0
4 TA 4 A g4 4 0.0 36.0
[ bonds ]
1 2 1 0.35 1000
1 3 1 0.35 1000
1 4 1 0.35 1000
"""
MOLT = {"P": [("A", ["a1"]), ("B", ["b1", "b2"]), ("A", ["a1"]), ("B", ["b1", "b2"])], "G": G_TEXT, "S": [("S", ["s1"])]}
LAYOUT = [("P", 2), ("S", 1), ("G", 1), ("P", 1)]        # molecule indices: P 0,1  S 2  G 3  P 4
# the same plus a ligand of three residues (molecule index 5)
MOLT_L = dict(MOLT, L=[("X", ["x1"]), ("Y", ["y1"]), ("X", ["x1"])])
LAYOUT_L = LAYOUT + [("L", 1), ("S", 1)]      # ... L 5, and a second solvent molecule S 6


def make_top():
    return topology_from_text(top_text(MOLT, LAYOUT))


@condition("C18.build_file_ranges",
           anchors=["polyply.src.build_file_parser:BuildDirector._molecule", "polyply.src.build_file_parser:BuildDirector._tag_nodes",
                    "polyply.src.build_file_parser:BuildDirector.finalize", "polyply.src.build_file_parser:BuildDirector._parse_geometry",
                    "polyply.src.build_file_parser:BuildDirector._rw_restriction"],
           rejects=(), must_cover=["tagged", "two geometry lines on one residue", "two rw lines", "unordered residues"],
           outside=["molecule indices / residue ids above 6", "more than two directive lines per kind"],
           bounds={"quick": dict(hi=3, molnames=["P", "G"]), "thorough": dict(hi=4, molnames=["P", "G", "S"])},
           budget={"quick": 280, "thorough": 1500})
def build_file_ranges(sx, B):
    """Real read_build_file (BuildDirector) on a topology read by the real reader (repeated and interleaved molecule names, one
    molecule whose residues are not stored in residue-id order) and a generated build file: a [ molecule ] block with symbolic
    index range and two [ sphere ] and two [ rw_restriction ] lines with symbolic residue-id ranges (rendered into the file, hence
    forked over their whole range). Claim: a residue carries exactly the directives whose molecule name and half-open index range
    select its molecule and whose residue name and half-open residue-id range select it, in file order; every other residue's
    attribute dictionary is unchanged."""
    hi = B["hi"]
    pairs = [(a, b) for a in range(hi + 1) for b in range(a + 1, hi + 2)]
    molname = sx.sel("molname", B["molnames"])
    ms = sx.int("mol_start", 0, hi)
    me = sx.int("mol_stop", 1, hi + 1)
    sx.assume(ms < me)
    ms, me = int(ms), int(me)       # rendered into the file: forked over the whole range
    lines = ["[ molecule ]", "%s %d %d" % (molname, ms, me)]
    geo, rws = [], []
    rn = sx.sel("geo_resname0", ["A", "B"])
    a = sx.int("geo_start0", 0, hi)
    b = sx.int("geo_stop0", 1, hi + 1)
    sx.assume(a < b)
    a, b = int(a), int(b)
    geo.append((rn, a, b, 0))
    second = sx.sel("second_geometry_line", ["adjacent", "same range", "everything", "other name adjacent"])
    geo.append({"adjacent": (rn, b, b + 1, 1), "same range": (rn, a, b, 1), "everything": (rn, 0, hi + 2, 1),
                "other name adjacent": ("B" if rn == "A" else "A", b, b + 2, 1)}[second])
    lines.append("[ sphere ]")
    for rn_, a_, b_, k in geo:
        lines.append("%s %d %d %s %d.0 2.0 3.0 %d.5" % (rn_, a_, b_, "in" if k == 0 else "out", k + 1, k + 4))
    rw_two = sx.sel("rw_lines", [1, 2])
    rn = sx.sel("rw_resname0", ["A", "B"])
    a, b = sx.sel("rw_range0", [(1, 2), (1, 3), (2, 5), (3, 4)])
    rws.append((rn, a, b, 0))
    if rw_two == 2:
        rws.append((rn, b, b + 2, 1))
    lines.append("[ rw_restriction ]")
    for rn, a, b, k in rws:
        lines.append("%s %d %d %d.0 0.0 1.0 %d0.0" % (rn, a, b, k + 1, k + 3))
    top = make_top()
    before = {(mi, n): dict(m.nodes[n]) for mi, m in enumerate(top.molecules) for n in m.nodes}
    read_build_file(lines, top, top.molecules)
    if len(rws) == 2:
        sx.cover("two rw lines")
    for mi, m in enumerate(top.molecules):
        selected = m.mol_name == molname and ms <= mi < me
        for n in m.nodes:
            nd = m.nodes[n]
            rid, rname = nd["resid"], nd["resname"]
            want_geo = [k for (rn, a, b, k) in geo if selected and rn == rname and a <= rid < b]
            want_rw = [k for (rn, a, b, k) in rws if selected and rn == rname and a <= rid < b]
            got_geo = [(p[0], float(p[1][0]), p[2]) for p in nd.get("restraints", [])]
            exp_geo = [("in" if k == 0 else "out", float(k + 1), k + 4.5) for k in want_geo]
            what = lambda: "build file:\n%s\nmolecule %d (%s) residue %s%s" % ("\n".join(lines), mi, m.mol_name, rname, rid)
            sx.claim(got_geo == exp_geo, "a residue carries exactly the geometric restraints whose name/index/id ranges select it",
                     lambda: what() + ": %r expected %r" % (got_geo, exp_geo))
            got_rw = [(float(p[0][0]), float(p[1])) for p in nd.get("rw_options", [])]
            exp_rw = [(float(k + 1), (k + 3) * 10.0) for k in want_rw]
            sx.claim(got_rw == exp_rw, "a residue carries exactly the growth-direction restrictions whose ranges select it",
                     lambda: what() + ": %r expected %r" % (got_rw, exp_rw))
            if want_geo or want_rw:
                sx.cover("tagged")
                if len(want_geo) == 2:
                    sx.cover("two geometry lines on one residue")
                if m.mol_name == "G":
                    sx.cover("unordered residues")
            else:
                rest = {k: v for k, v in nd.items()}
                sx.claim(set(rest) == set(before[(mi, n)]), "residues that are not selected are left untouched",
                         lambda: what() + ": keys %r" % sorted(rest))


@condition("C18.residue_spec",
           anchors=["polyply.src.annotate_ligands:parse_residue_spec", "polyply.src.annotate_ligands:_find_nodes",
                    "polyply.src.gen_coords:find_starting_node_from_spec"],
           rejects=(), selector_only=True, must_cover=["all fields", "resid 0", "start node", "invalid rejected"],
           outside=["names containing '#' or '-' (excluded by the documented format)", "arbitrary unicode in names"],
           bounds={"quick": dict(), "thorough": dict()})
def residue_spec(sx, B):
    """Real parse_residue_spec / _find_nodes / find_starting_node_from_spec on specifications <molname>#<molidx>-<resname>#<resid>
    with every subset of fields omitted (names and numbers solver-chosen, residue id 0 included after a split): the parsed fields are
    exactly those written, node lookup returns exactly the residues with that name and id, and the start dictionary names the
    selected residue of the selected molecules only."""
    molname = sx.sel("molname", [None, "P", "G", "S"])
    molidx = sx.sel("molidx", [None, 0, 1, 3, 4])
    resname = sx.sel("resname", [None, "A", "B"])
    resid = sx.sel("resid", [None, 0, 1, 2, 3])
    bad = sx.sel("malformed", [None, "idx", "resid"])
    spec = (molname or "") + ("#%s" % ("x1" if bad == "idx" else molidx) if (molidx is not None or bad == "idx") else "")
    if resname is not None or resid is not None or bad == "resid":
        spec += "-" + (resname or "") + ("#%s" % ("q" if bad == "resid" else resid) if (resid is not None or bad == "resid") else "")
    try:
        out = parse_residue_spec(spec)
    except IOError:
        sx.cover("invalid rejected")
        sx.claim(bad is not None, "only malformed numbers are rejected", lambda: spec)
        return
    sx.claim(bad is None, "a non-numeric index or id is rejected", lambda: spec)
    want = {}
    if molname:
        want["molname"] = molname
    if molidx is not None:
        want["mol_idx"] = molidx
    if resname:
        want["resname"] = resname
    if resid is not None:
        want["resid"] = resid
    sx.claim(out == want, "parsed fields are exactly the fields written", lambda: "%r -> %r expected %r" % (spec, out, want))
    if len(want) == 4:
        sx.cover("all fields")
    top = make_top()
    zero_based = resid == 0
    if zero_based:
        # after -split the residues are renumbered from 0
        for m in top.molecules:
            for n in m.nodes:
                m.nodes[n]["resid"] -= 1
        sx.cover("resid 0")
    for mi, m in enumerate(top.molecules):
        got = sorted(_find_nodes(m, out), key=str)
        exp = sorted((n for n in m.nodes if (resname is None or m.nodes[n]["resname"] == resname)
                      and (resid is None or m.nodes[n]["resid"] == resid)), key=str)
        sx.claim(got == exp, "node lookup returns exactly the residues with the given name and id",
                 lambda: "%r on molecule %d: %r expected %r" % (spec, mi, got, exp))
    # -start: needs molname or mol_idx and at least one matching residue in every selected molecule
    if (molname or molidx is not None):
        sel = [mi for mi, m in enumerate(top.molecules) if (molidx is None and m.mol_name == molname) or (molidx is not None and mi == molidx)]
        if molidx is not None and molidx >= len(top.molecules):
            return
        if all(list(_find_nodes(top.molecules[mi], out)) for mi in sel) and sel:
            sd = gen_coords.find_starting_node_from_spec(top, [spec])
            sx.cover("start node")
            for mi in range(len(top.molecules)):
                if mi in sel:
                    sx.claim(sd[mi] == list(_find_nodes(top.molecules[mi], out))[0], "start node is the first selected residue of a selected molecule")
                else:
                    sx.claim(sd[mi] is None, "molecules that are not selected get no start node",
                             lambda: "%r: molecule %d got %r" % (spec, mi, sd[mi]))


SPLIT_TOP = {"Q": [("R", ["a", "b", "c", "d"]), ("R", ["a", "b", "c", "d"]), ("T", ["t1"])]}


@condition("C18.split",
           anchors=["polyply.src.meta_molecule:MetaMolecule.split_residue", "polyply.src.meta_molecule:_interpret_residue_mapping",
                    "polyply.src.meta_molecule:MetaMolecule.relabel_and_redo_res_graph"],
           rejects=(), selector_only=True, must_cover=["split", "duplicate rejected", "residue numbers with gaps"],
           outside=["residues of more than 4 atoms", "more than 3 new residues"],
           bounds={"quick": dict(), "thorough": dict()})
def split(sx, B):
    """Real MetaMolecule.split_residue on a molecule with two four-atom residues R: every assignment of the atoms to up to three
    new residue names is chosen by the solver. Claims: the atoms of every R residue are partitioned into the named new residues,
    none lost or duplicated, atoms of other residues keep their residue, a doubly mentioned atom is rejected."""
    # (one of the new residue names equals the name of a residue that exists already)
    assign = [sx.sel("atom_%s" % a, ["X", "Y", "T"]) for a in "abcd"]
    dup = sx.sel("mention_twice", [False, True])
    groups = {}
    for a, g in zip("abcd", assign):
        groups.setdefault(g, []).append(a)
    parts = ["%s-%s" % (g, ",".join(atoms)) for g, atoms in sorted(groups.items())]
    if dup:
        parts.append("W-a")
    spec = "R:" + ":".join(parts)
    numbering = sx.sel("residue_numbers", [(1, 2, 3), (1, 2, 5), (4, 5, 9)])
    if numbering != (1, 2, 3):
        sx.cover("residue numbers with gaps")
    split_top = {"Q": [(nm, atoms, numbering[i]) for i, (nm, atoms) in enumerate(SPLIT_TOP["Q"])]}
    top = topology_from_text(top_text(split_top, [("Q", 1)], atomtypes=("R", "T")))
    meta = top.molecules[0]
    natoms = len(meta.molecule.nodes)
    try:
        meta.split_residue([spec])
    except IOError:
        sx.cover("duplicate rejected")
        sx.claim(dup, "only a doubly mentioned atom is rejected", lambda: spec)
        return
    sx.claim(not dup, "an atom mentioned twice is rejected", lambda: spec)
    sx.cover("split")
    seen = []
    for n in meta.nodes:
        seen += list(meta.nodes[n]["graph"].nodes)
    sx.claim(sorted(seen) == sorted(meta.molecule.nodes) and len(meta.molecule.nodes) == natoms, "no atom is lost or duplicated by splitting",
             lambda: "%s: %r" % (spec, sorted(seen)))
    # expected residues: for each original R residue one residue per used new name holding exactly the named atoms
    mol = meta.molecule
    got = sorted((meta.nodes[n]["resname"], tuple(sorted(mol.nodes[a]["atomname"] for a in meta.nodes[n]["graph"].nodes))) for n in meta.nodes)
    exp = sorted([(g, tuple(sorted(atoms))) for g, atoms in groups.items()] * 2 + [("T", ("t1",))])
    sx.claim(got == exp, "each residue is partitioned into the named new residues with exactly the named atoms",
             lambda: "%s: %r expected %r" % (spec, got, exp))
    for n in meta.nodes:
        sx.claim(all(mol.nodes[a]["resid"] == meta.nodes[n]["resid"] and mol.nodes[a]["resname"] == meta.nodes[n]["resname"]
                     for a in meta.nodes[n]["graph"].nodes), "atoms carry the name and id of their new residue")
        sx.claim(meta.nodes[n].get("build") is True and meta.nodes[n].get("backmap") is True,
                 "every residue (split or not) is still flagged for building and backmapping, as before the split",
                 lambda: "%s: residue %r (%s) has %r" % (spec, n, meta.nodes[n]["resname"], {k: meta.nodes[n].get(k) for k in ("build", "backmap")}))


@condition("C18.ligands",
           anchors=["polyply.src.annotate_ligands:AnnotateLigands._connect_ligands_to_molecule", "polyply.src.annotate_ligands:AnnotateLigands.split_ligands",
                    "polyply.src.annotate_ligands:AnnotateLigands.run_system"],
           rejects=(IOError,), selector_only=True, must_cover=["attached", "handed back", "resid 0", "one residue of a larger ligand", "second molecule of the ligand's name"], allow_all_rejected=False,
           outside=["placement itself (one step from the residue grown from: C05/C17)"],
           bounds={"quick": dict(), "thorough": dict()})
def ligands(sx, B):
    """Real AnnotateLigands (init, run_system, split_ligands) with a solver-chosen ligand specification: the ligand is attached by
    exactly one edge to exactly the residue(s) the specification names (hence grown one step from it), flagged for building,
    and after building its position is handed back to the ligand's own molecule; the molecule list keeps its content and order
    and all other residues keep their attributes."""
    target_mol = sx.sel("target_molecule", [("P", None), ("P", 0), (None, 4), ("G", 3)])
    target_res = sx.sel("target_residue", [("A", 1), ("B", 2), ("A", 3), ("A", 0)])
    zero_based = target_res[1] == 0
    ligand = sx.sel("ligand", [(2, None), (6, None), (5, ("Y", 2)), (5, ("X", 3))])
    top = topology_from_text(top_text(MOLT_L, LAYOUT_L, atomtypes=("A", "B", "C", "S", "X", "Y")))
    if zero_based:
        for m in top.molecules:
            for n in m.nodes:
                m.nodes[n]["resid"] -= 1
        sx.cover("resid 0")
    molspec = (target_mol[0] or "") + ("#%d" % target_mol[1] if target_mol[1] is not None else "") + "-%s#%d" % target_res
    lig_idx, lig_res = ligand
    if lig_res is None:
        # molecule name and index together: the index decides which of the molecules of that name is meant
        ligspec = "S#%d" % lig_idx
        lnode = next(iter(top.molecules[lig_idx].nodes))
        if lig_idx != 2:
            sx.cover("second molecule of the ligand's name")
    else:
        # one residue of a ligand that has several, not the first one
        ligspec = "L#5-%s#%d" % (lig_res[0], lig_res[1] - (1 if zero_based else 0))
        lnode = [n for n in top.molecules[5].nodes if top.molecules[5].nodes[n]["resname"] == lig_res[0]
                 and top.molecules[5].nodes[n]["resid"] == lig_res[1] - (1 if zero_based else 0)][0]
        sx.cover("one residue of a larger ligand")
    names_before = [m.mol_name for m in top.molecules]
    nodes_before = {mi: {n: dict(m.nodes[n]) for n in m.nodes} for mi, m in enumerate(top.molecules)}
    expected = []      # (molecule index, node) that get a ligand; only one ligand molecule exists
    for mi, m in enumerate(top.molecules):
        if (target_mol[1] is not None and mi != target_mol[1]) or (target_mol[1] is None and m.mol_name != target_mol[0]):
            continue
        for n in m.nodes:
            if m.nodes[n]["resname"] == target_res[0] and m.nodes[n]["resid"] == target_res[1]:
                expected.append((mi, n))
    sx.assume(len(expected) == 1, "the specification selects exactly one residue (one ligand molecule is available)")
    ann = AnnotateLigands(top, [(molspec, ligspec)])
    ann.run_system(top)
    (mi, node) = expected[0]
    m = top.molecules[mi]
    new = [n for n in m.nodes if n not in nodes_before[mi]]
    sx.cover("attached")
    sx.claim(len(new) == 1 and sorted(m.neighbors(new[0])) == [node], "the ligand is attached by one edge to exactly the named residue",
             lambda: "%s: new nodes %r with neighbours %r, expected attachment to %r of molecule %d" % (
                 molspec, new, [sorted(m.neighbors(x)) for x in new], node, mi))
    if len(new) != 1:
        return
    sx.claim(m.nodes[new[0]].get("build") is True and m.nodes[new[0]].get("ligated") == (lig_idx, lnode),
             "the attached node is built and remembers the ligand it stands for")
    for mj, mm in enumerate(top.molecules):
        extra = [n for n in mm.nodes if n not in nodes_before[mj]]
        sx.claim(extra == (new if mj == mi else []), "no other molecule gets a ligand", lambda: "molecule %d: %r" % (mj, extra))
    # building gives the attached node a position; it must be handed back
    pos = sentinel(7)
    m.nodes[new[0]]["position"] = pos
    ann.split_ligands()
    sx.cover("handed back")
    sx.claim(bool(np.array_equal(top.molecules[lig_idx].nodes[lnode].get("position"), pos)),
             "the position is handed back to the named residue of the ligand's own molecule",
             lambda: "%s: positions in the ligand molecule %r" % (ligspec, {n: top.molecules[lig_idx].nodes[n].get("position") for n in top.molecules[lig_idx].nodes}))
    sx.claim(all("position" not in top.molecules[lig_idx].nodes[n] for n in top.molecules[lig_idx].nodes if n != lnode),
             "no other residue of the ligand receives a position")
    sx.claim([mm.mol_name for mm in top.molecules] == names_before, "molecule list unchanged in content and order")
    for mj, mm in enumerate(top.molecules):
        sx.claim(set(mm.nodes) == set(nodes_before[mj]), "attached nodes are removed again", lambda: "molecule %d: %r" % (mj, sorted(mm.nodes)))
        for n in mm.nodes:
            if mj == lig_idx and n == lnode:
                continue
            sx.claim({k: v for k, v in mm.nodes[n].items()} == nodes_before[mj][n], "other residues keep their attributes")



@condition("C18.spec_strings", engine="crosshair",
           anchors=["polyply.src.annotate_ligands:parse_residue_spec"],
           must_cover=["spec_names_only", "spec_molecule_only"],
           cfg={"module": "chx/c18_spec.py", "functions": {"quick": ["spec_names_only", "spec_molecule_only"],
                                                          "thorough": ["spec_names_only", "spec_molecule_only", "spec_with_ids"]},
                "timeout": {"quick": 90, "thorough": 300}},
           outside=["names longer than 3 characters (1 when both ids are given)", "ids given as anything but digit strings from a small set"],
           bounds={"quick": dict(name_len=3), "thorough": dict(name_len=3, name_len_with_ids=1)})
def spec_strings(sx, B):
    """Engine B (CrossHair, z3 string theory): real parse_residue_spec on specifications whose molecule and residue names are
    arbitrary strings (any characters except '#' and '-', length <= 3): the parsed dictionary holds exactly the fields written."""
    raise NotImplementedError("run by pverif.chx")


@condition("C18.molecule_sections",
           anchors=["polyply.src.build_file_parser:BuildDirector._distance_restraints", "polyply.src.build_file_parser:BuildDirector._persistence_length",
                    "polyply.src.build_file_parser:BuildDirector._molecule"],
           rejects=(IOError,), must_cover=["distance restraint", "persistence", "two blocks"],
           outside=["molecule indices above the bound"],
           bounds={"quick": dict(hi=4), "thorough": dict(hi=4)})
def molecule_sections(sx, B):
    """Real read_build_file with [ distance_restraints ] and [ persistence_length ] lines inside one or two [ molecule ] blocks whose
    index ranges are symbolic: the restraints are stored for exactly the molecules with the given name and an index in the
    half-open range of their own block, with the distances, tolerances and residues as written; nothing is stored for others."""
    hi = B["hi"]
    blocks = []
    nblocks = sx.sel("blocks", [1, 2])
    lines = []
    for k in range(nblocks):
        name = sx.sel("molname%d" % k, ["P", "G"])
        a = sx.int("start%d" % k, 0, hi)
        b = sx.int("stop%d" % k, 1, hi + 1)
        sx.assume(a < b)
        a, b = int(a), int(b)
        # molecule 2 is the one-residue solvent: it has no residue 3 to restrain (rejected by the parser)
        sx.assume(not (a <= 2 < b), "index ranges of the generated build files do not contain the one-residue molecule")
        tol = sx.sel("tolerance%d" % k, [None, 0.25])
        pers = sx.sel("persistence%d" % k, [False, True])
        blocks.append((name, a, b, tol, pers, k))
        lines += ["[ molecule ]", "%s %d %d" % (name, a, b), "[ distance_restraints ]",
                  "0 3 %d.5%s" % (k + 1, "" if tol is None else " %s" % tol)]
        if pers:
            lines += ["[ persistence_length ]", "WCM %d.0 0 3" % (k + 2)]
    if nblocks == 2:
        sx.cover("two blocks")
    top = make_top()
    # every selected molecule must exist and hold nodes 0 and 3 (P and G do); S has one residue only
    read_build_file(lines, top, top.molecules)
    sx.cover("distance restraint")
    # applying them (real set_restraints): only molecules that carry the block's name may receive bounds
    import polyply.src.restraints as restraints
    from harness.C07 import _Eng
    inter = {frozenset([x, y]): (0.5, 1.0) for x in "ABS" for y in "ABS"}
    n2g, atypes = {}, []
    for mi, m in enumerate(top.molecules):
        for nd in m.nodes:
            n2g[(mi, nd)] = len(atypes)
            atypes.append(m.nodes[nd]["resname"])
    eng = _Eng(None, n2g, None, inter, np.array(atypes))
    applied_ok = True
    try:
        restraints.set_restraints(top, eng)
    except (KeyError, IndexError, nx.NetworkXError, OSError):
        applied_ok = False
    if applied_ok:
        for mi, m in enumerate(top.molecules):
            has = any("distance_restraints" in m.nodes[nd] for nd in m.nodes)
            should = any(name == m.mol_name and a <= mi < b for (name, a, b, tol, pers, k) in blocks)
            sx.claim(has == should, "only molecules with the block's name and an index in its range receive distance bounds",
                     lambda: "build file:\n%s\nmolecule %d (%s): restrained=%r expected %r" % ("\n".join(lines), mi, m.mol_name, has, should))
    names_of = [m.mol_name for m in top.molecules]
    want_p = [(name, float(k + 2), 0, 3, [i for i in range(a, b) if names_of[i] == name]) for (name, a, b, tol, pers, k) in blocks if pers]
    got_p = [(None, float(s.lp), s.start, s.stop, [int(i) for i in s.mol_idxs]) for s in top.persistences]
    if want_p:
        sx.cover("persistence")
    mismatch = any(names_of[i] != name for (name, a, b, tol, pers, k) in blocks if pers for i in range(a, b))
    sx.tag("persistence_range_covers_other_name", 1 if mismatch else 0)
    sx.claim([g[1:] for g in got_p] == [w[1:] for w in want_p],
             "persistence-length specifications select the molecules with the block's name and an index in its own range",
             lambda: "build file:\n%s\n%r expected %r" % ("\n".join(lines), got_p, want_p))


@condition("C18.ligands_by_name",
           anchors=["polyply.src.annotate_ligands:AnnotateLigands.__init__", "polyply.src.annotate_ligands:AnnotateLigands.run_system",
                    "polyply.src.annotate_ligands:AnnotateLigands.split_ligands", "polyply.src.top_parser:TOPDirector.finalize"],
           rejects=(), selector_only=True, must_cover=["handed back"],
           outside=["more ligands than the three solvent molecules of the test system"],
           bounds={"quick": dict(), "thorough": dict()})
def ligands_by_name(sx, B):
    """-lig with molecule *names* only (`P-A#3:S`) on a topology read by the real reader in which both names stand on several
    [ molecules ] lines: every P molecule gets one S molecule attached at its residue A#3 (the first S to the first P, ...), each
    ligand is handed back to its own molecule, the molecule list is unchanged."""
    layout = [("P", 2), ("S", 1), ("G", 1), ("P", 1), ("S", 2)]          # P 0,1,4   S 2,5,6
    top = topology_from_text(top_text(MOLT, layout))
    resid = sx.sel("residue", [("A", 1), ("A", 3), ("B", 2)])
    names_before = [m.mol_name for m in top.molecules]
    nodes_before = {mi: set(m.nodes) for mi, m in enumerate(top.molecules)}
    ann = AnnotateLigands(top, [("P-%s#%d" % resid, "S")])
    ann.run_system(top)
    pairs = [(0, 2), (1, 5), (4, 6)]
    pos = {}
    for k, (pi, si) in enumerate(pairs):
        m = top.molecules[pi]
        new = [n for n in m.nodes if n not in nodes_before[pi]]
        target = [n for n in nodes_before[pi] if m.nodes[n]["resname"] == resid[0] and m.nodes[n]["resid"] == resid[1]]
        ok = len(new) == 1 and sorted(m.neighbors(new[0])) == target and m.nodes[new[0]].get("ligated") == (si, next(iter(top.molecules[si].nodes)))
        sx.claim(ok, "every molecule of the named type gets its own ligand molecule attached at the named residue",
                 lambda: "P molecule %d: new nodes %r, ligated %r (expected S molecule %d)" % (pi, new, [m.nodes[x].get("ligated") for x in new], si))
        for x in new:
            pos[pi] = sentinel(20 + k)
            m.nodes[x]["position"] = pos[pi]
    for mi, m in enumerate(top.molecules):
        if mi not in (0, 1, 4):
            sx.claim(set(m.nodes) == nodes_before[mi], "no other molecule gets a ligand")
    ann.split_ligands()
    sx.cover("handed back")
    for pi, si in pairs:
        ln = next(iter(top.molecules[si].nodes))
        sx.claim(pi in pos and bool(np.array_equal(top.molecules[si].nodes[ln].get("position"), pos[pi])), "each ligand is handed back to its own molecule",
                 lambda: "S molecule %d: %r" % (si, top.molecules[si].nodes[ln].get("position")))
    sx.claim([m.mol_name for m in top.molecules] == names_before and all(set(m.nodes) == nodes_before[mi] for mi, m in enumerate(top.molecules)),
             "the molecule list and its residues are unchanged afterwards")
