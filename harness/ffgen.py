"""Generated force fields for the pipeline properties (C01, C02, C10, C13, C14): text for the real parsers plus the
independent description (plain python data) the oracles are computed from."""
import json
import itertools
import networkx as nx
import vermouth.forcefield
from polyply.src.ff_parser_sub import read_ff
from polyply.src.polyply_parser import read_polyply
from polyply.src.meta_molecule import MetaMolecule


class BlockSpec:
    """independent description of a block: atoms [(name, atype, cgnr, charge, mass, resid, resname)], interactions
    [(type, atom indices (0-based), parameter tokens, meta dict)]"""
    def __init__(self, name, atoms, inters, nrexcl=1):
        self.name, self.atoms, self.inters, self.nrexcl = name, atoms, inters, nrexcl

    def residues(self):
        out = []
        for a in self.atoms:
            if (a[5], a[6]) not in out:
                out.append((a[5], a[6]))
        return out


def simple_block(name, natoms, nrexcl=1, multi=False, ifdef=True, extra_excl=False):
    """chain of `natoms` atoms; unique parameter tokens; optional guarded term and a two-term angle on the same atoms"""
    atoms, inters = [], []
    for i in range(natoms):
        atoms.append(("%s%d" % (name.lower(), i + 1), "T%s%d" % (name, i + 1), 1 + i // 2, round(0.1 * (i + 1), 3), 10.0 + i, 1, name))
    for i in range(natoms - 1):
        inters.append(("bonds", (i, i + 1), ["1", "0.3%d" % i, "%d00" % (i + 1)], {}))
    if natoms >= 2 and ifdef:
        inters.append(("bonds", (0, natoms - 1), ["1", "0.55", "777"], {"ifdef": "FLEX"}))
    if natoms >= 3:
        inters.append(("angles", (0, 1, 2), ["2", "120", "45"], {}))
        if multi:
            inters.append(("angles", (0, 1, 2), ["10", "130", "55"], {}))
    if extra_excl == "line of three" and natoms >= 3:
        # one [ exclusions ] line with several partners: the first atom excludes each of the others (not the others among themselves)
        inters.append(("exclusions", (1, 0, 2), [], {}))
    elif extra_excl and natoms >= 3:
        inters.append(("exclusions", (0, 2), [], {}))
    if natoms >= 4:
        inters.append(("dihedrals", (0, 1, 2, 3), ["9", "0", "1.5", "1"], {}))
        if multi:
            inters.append(("dihedrals", (0, 1, 2, 3), ["9", "180", "2.5", "2"], {}))
            inters.append(("dihedrals", (0, 1, 2, 3), ["9", "0", "3.5", "3"], {}))
        inters.append(("pairs", (0, 3), ["1"], {}))
        inters.append(("constraints", (1, 3), ["1", "0.44"], {"ifndef": "FLEX"}))
    return BlockSpec(name, atoms, inters, nrexcl)


def ring_block(name, nrexcl=1):
    """a three-membered ring with one substituent on the first ring atom"""
    atoms = [("%s%d" % (name.lower(), i + 1), "T%s%d" % (name, i + 1), 1, 0.0, 10.0 + i, 1, name) for i in range(4)]
    inters = [("bonds", (0, 1), ["1", "0.30", "100"], {}), ("bonds", (1, 2), ["1", "0.31", "200"], {}),
              ("bonds", (2, 0), ["1", "0.32", "300"], {}), ("bonds", (0, 3), ["1", "0.33", "400"], {})]
    return BlockSpec(name, atoms, inters, nrexcl)


def multi_res_block(name="MUL", nrexcl=1, first_resid=1, interleaved=False):
    """a block that spans two residues (used through the from_itp label); its own residue numbers start at `first_resid`;
    interleaved: the atoms of the first residue are not listed next to each other (m1, m3, m2)"""
    f = first_resid
    if interleaved:
        atoms = [("m1", "TM1", 1, 0.0, 20.0, f, "MA"), ("m3", "TM3", 2, -0.5, 22.0, f + 1, "MB"), ("m2", "TM2", 1, 0.5, 21.0, f, "MA")]
        inters = [("bonds", (0, 2), ["1", "0.25", "5000"], {}), ("bonds", (2, 1), ["1", "0.26", "6000"], {}),
                  ("angles", (0, 2, 1), ["2", "100", "33"], {})]
        return BlockSpec(name, atoms, inters, nrexcl)
    atoms = [("m1", "TM1", 1, 0.0, 20.0, f, "MA"), ("m2", "TM2", 1, 0.5, 21.0, f, "MA"), ("m3", "TM3", 2, -0.5, 22.0, f + 1, "MB")]
    inters = [("bonds", (0, 1), ["1", "0.25", "5000"], {}), ("bonds", (1, 2), ["1", "0.26", "6000"], {}),
              ("angles", (0, 1, 2), ["2", "100", "33"], {})]
    return BlockSpec(name, atoms, inters, nrexcl)


def _meta_json(meta):
    return (" " + json.dumps(meta)) if meta else ""


def block_text_ff(b):
    lines = ["[ moleculetype ]", "%s %d" % (b.name, b.nrexcl), "[ atoms ]"]
    for i, a in enumerate(b.atoms):
        lines.append("%d %s %d %s %s %d %s %s" % (i + 1, a[1], a[5], a[6], a[0], a[2], a[3], a[4]))
    by = {}
    for t, at, params, meta in b.inters:
        by.setdefault(t, []).append((at, params, meta))
    for t, lst in by.items():
        lines.append("[ %s ]" % t)
        for at, params, meta in lst:
            lines.append(" ".join(b.atoms[i][0] for i in at) + " " + " ".join(params) + _meta_json(meta))
    return "\n".join(lines)


def block_text_itp(b, dangling=()):
    """polyply .itp syntax: atom indices, #ifdef lines; `dangling` = extra interactions with indices >= natoms"""
    lines = ["[ moleculetype ]", "%s %d" % (b.name, b.nrexcl), "[ atoms ]"]
    for i, a in enumerate(b.atoms):
        lines.append("%d %s %d %s %s %d %s %s" % (i + 1, a[1], a[5], a[6], a[0], a[2], a[3], a[4]))
    by = {}
    for t, at, params, meta in list(b.inters) + list(dangling):
        by.setdefault(t, []).append((at, params, meta))
    for t, lst in by.items():
        lines.append("[ %s ]" % t)
        for at, params, meta in lst:
            body = " ".join(str(i + 1) for i in at) + " " + " ".join(params)
            if "ifdef" in meta:
                lines += ["#ifdef %s" % meta["ifdef"], body, "#endif"]
            elif "ifndef" in meta:
                lines += ["#ifndef %s" % meta["ifndef"], body, "#endif"]
            else:
                lines.append(body)
    return "\n".join(lines)


def parse_ff(texts, name="pverif"):
    """texts: list of (syntax, text) in reading order -> ForceField via the real parsers"""
    ff = vermouth.forcefield.ForceField(name=name)
    for syntax, text in texts:
        if syntax == "ff":
            read_ff(text.split("\n"), ff)
        else:
            read_polyply(text.split("\n"), ff)
    return ff


GRAPHS = {
    1: {"single": []},
    2: {"path": [(0, 1)]},
    3: {"path": [(0, 1), (1, 2)], "cycle": [(0, 1), (1, 2), (2, 0)], "star": [(1, 0), (1, 2)]},
    4: {"path": [(0, 1), (1, 2), (2, 3)], "star": [(0, 1), (0, 2), (0, 3)], "cycle": [(0, 1), (1, 2), (2, 3), (3, 0)],
        "branch": [(0, 1), (1, 2), (1, 3)]},
}


def residue_graph(n, edges, resnames, resids, keys=None, order=None, from_itp=None, ff=None, mol_name="mol"):
    """MetaMolecule with node i (rank position i) = key keys[i], resid resids[i]; nodes inserted in `order`"""
    keys = keys or list(range(n))
    order = order or list(range(n))
    g = nx.Graph()
    for i in order:
        attrs = dict(resname=resnames[i], resid=resids[i])
        if from_itp and from_itp.get(i):
            attrs["from_itp"] = from_itp[i]
        g.add_node(keys[i], **attrs)
    for a, b in edges:
        g.add_edge(keys[a], keys[b])
    return MetaMolecule(g, force_field=ff, mol_name=mol_name)
