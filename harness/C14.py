"""C14 - Mixed exclusion distances are honoured atom by atom."""
import itertools
import networkx as nx
from pverif.harness import condition, patched
from pverif import symx
from harness.ffgen import simple_block, ring_block, block_text_ff, block_text_itp, parse_ff, GRAPHS, residue_graph
import polyply.src.apply_links as al
from polyply.src.map_to_molecule import MapToMolecule
from polyply.src.apply_links import ApplyLinks


class _Tqdm:
    def __init__(self, it=None, *a, **k):
        self.it = it

    def __iter__(self):
        return iter(self.it)


LINK = """[ link ]
resname "A|B|C"
[ bonds ]
{last} +{first} 1 0.41 4100
"""
LINK_EXCL = """[ exclusions ]
{a} +{b}
"""


@condition("C14.exclusions",
           anchors=["polyply.src.map_to_molecule:tag_exclusions", "polyply.src.apply_links:expand_excl", "polyply.src.graph_utils:neighborhood",
                    "polyply.src.map_to_molecule:MapToMolecule.run_molecule", "polyply.src.apply_links:ApplyLinks.run_molecule"],
           rejects=(), selector_only=True, must_cover=["mixed", "uniform", "explicit block exclusion", "link exclusion", "three distances", "ring block", "explicit link", "unused block with another distance", "exclusion line with several partners", "explicit constraint link", "vetoed alternative link"],
           stubs=["apply_links.tqdm -> plain iteration"],
           outside=["residue graphs / blocks larger than the bound", "exclusion distances above 4"],
           bounds={"quick": dict(nmax=3, excl=[0, 1, 3], sizes=[3, "ring"]), "thorough": dict(nmax=4, excl=[0, 2, 4], sizes=[3, "ring"])},
           budget={"quick": 280, "thorough": 1500})
def exclusions(sx, B):
    """Real tag_exclusions/MapToMolecule/ApplyLinks(expand_excl, neighborhood) on residue graphs whose residues come from up to three
    blocks with solver-chosen exclusion distances (forked: they are hashed by the code), sizes, explicit exclusions and link-made
    bonds. Oracle: breadth-first bond-graph distances. Claim: the effective exclusion set (pairs within the molecule-wide distance
    plus the [ exclusions ] entries) equals {d(a,b) <= max(distance of a's block, distance of b's block)} plus the explicit ones;
    with a uniform distance the molecule keeps it and no exclusion is invented - whatever other blocks the loaded files contain."""
    n = int(sx.int("n", 2, B["nmax"]))
    shape = sx.sel("shape", sorted(GRAPHS[n]))
    names = [sx.sel("res%d" % i, ["A", "B", "C"][: (3 if n >= 3 else 2)]) for i in range(n)]
    used = sorted(set(names))
    nrexcl = {nm: sx.sel("nrexcl_%s" % nm, B["excl"]) for nm in used}
    size = {nm: sx.sel("atoms_%s" % nm, B["sizes"]) for nm in used}
    # (only where it makes a difference: a chain-shaped block A of three atoms is part of the molecule)
    blk_excl = sx.sel("block_exclusion", [False, True, "line of three"]) if ("A" in used and size["A"] == 3) else False
    link_excl = sx.sel("link_exclusion", [False, True])
    specs = {nm: (ring_block(nm, nrexcl=nrexcl[nm]) if size[nm] == "ring" else
                  simple_block(nm, size[nm], nrexcl=nrexcl[nm], ifdef=False, extra_excl=(blk_excl if nm == "A" else False))) for nm in used}
    if any(v == "ring" for v in size.values()):
        sx.cover("ring block")
    explicit = sx.sel("explicit_link", [False, True, "constraint"])
    texts = [("ff", block_text_ff(specs[nm])) for nm in used]
    if not blk_excl and not link_excl and sx.sel("unused_block_in_library", [False, True]):
        # a block that is loaded with the force field but not part of the molecule, with another exclusion distance
        texts.insert(0, ("ff", block_text_ff(simple_block("U", 2, nrexcl=min(B["excl"]), ifdef=False))))
        sx.cover("unused block with another distance")
    link_text = ""
    for la in used:
        for fi in used:
            link_text += LINK.format(last=specs[la].atoms[-1][0], first=specs[fi].atoms[0][0])
            if link_excl:
                link_text += LINK_EXCL.format(a=specs[la].atoms[0][0], b=specs[fi].atoms[-1][0])
    if not blk_excl and not link_excl and not explicit and sx.sel("vetoed_alternative_link", [False, True]):
        # an alternative link between the last atoms of neighbouring residues that is always vetoed by its non-edge (the regular
        # link has made that bond already): it must leave no trace - in particular no path for the exclusion distances
        for la in used:
            for fi in used:
                if len(specs[fi].atoms) > 1:
                    link_text += ('[ link ]\nresname "A|B|C"\n[ bonds ]\n%s +%s 1 0.55 5500\n[ non-edges ]\n%s +%s\n'
                                  % (specs[la].atoms[-1][0], specs[fi].atoms[-1][0], specs[la].atoms[-1][0], specs[fi].atoms[0][0]))
        sx.cover("vetoed alternative link")
    texts.append(("ff", link_text))
    natoms_total = sum(len(specs[nm].atoms) for nm in names)
    if explicit and natoms_total >= 4:
        # a cross-link by atom number between the first and the last atom of the molecule
        if explicit == "constraint":
            # the cross-link may as well be a constraint: it counts as a bond for the exclusion distances (as for GROMACS)
            texts.append(("ff", "[ link ]\n[ molmeta ]\nby_atom_id true\n[ constraints ]\n1 %d 1 0.5\n" % natoms_total))
            sx.cover("explicit constraint link")
        else:
            texts.append(("ff", "[ link ]\n[ molmeta ]\nby_atom_id true\n[ bonds ]\n1 %d 1 0.5 500\n" % natoms_total))
        sx.cover("explicit link")
    ff = parse_ff(texts)
    meta = residue_graph(n, GRAPHS[n][shape], names, [i + 1 for i in range(n)], ff=ff)
    MapToMolecule(ff).run_molecule(meta)
    with patched(al, tqdm=_Tqdm):
        ApplyLinks().run_molecule(meta)
    mol = meta.molecule
    distinct = set(nrexcl[nm] for nm in names)
    sx.cover("mixed" if len(distinct) > 1 else "uniform")
    if len(distinct) >= 3:
        sx.cover("three distances")
    # bond graph from the bonded interactions that make edges (bonds)
    g = nx.Graph()
    g.add_nodes_from(mol.nodes)
    for inter in list(mol.interactions.get("bonds", [])) + list(mol.interactions.get("constraints", [])):
        g.add_edge(*inter.atoms)
    if explicit and natoms_total >= 4:
        sx.claim(g.has_edge(0, natoms_total - 1), "the explicit link's bond is part of the molecule")
    dist = dict(nx.all_pairs_shortest_path_length(g))
    e_of = {a: nrexcl[mol.nodes[a]["resname"]] for a in mol.nodes}
    expected = set()
    for a, b in itertools.combinations(sorted(mol.nodes), 2):
        d = dist[a].get(b)
        if d is not None and 1 <= d <= max(e_of[a], e_of[b]):
            expected.add(frozenset((a, b)))
    explicit_expected = set()
    res_atoms = {}
    for a in sorted(mol.nodes):
        res_atoms.setdefault(mol.nodes[a]["resid"], []).append(a)
    if blk_excl:
        for rid, atoms in res_atoms.items():
            if mol.nodes[atoms[0]]["resname"] == "A" and len(atoms) >= 3 and size["A"] != "ring":
                if blk_excl == "line of three":
                    explicit_expected.add(frozenset((atoms[1], atoms[0])))
                    explicit_expected.add(frozenset((atoms[1], atoms[2])))
                    sx.cover("exclusion line with several partners")
                else:
                    explicit_expected.add(frozenset((atoms[0], atoms[2])))
                sx.cover("explicit block exclusion")
    if link_excl:
        for u, v in GRAPHS[n][shape]:
            lo, hi = sorted((u, v))
            if hi == lo + 1:       # the link is written for consecutive residue ids
                a, b = res_atoms[lo + 1][0], res_atoms[hi + 1][-1]
                if a != b:
                    explicit_expected.add(frozenset((a, b)))
                    sx.cover("link exclusion")
    effective = set()
    for a, b in itertools.combinations(sorted(mol.nodes), 2):
        d = dist[a].get(b)
        if d is not None and 1 <= d <= mol.nrexcl:
            effective.add(frozenset((a, b)))
    listed = set()
    for inter in mol.interactions.get("exclusions", []):
        for x in inter.atoms[1:]:
            if x != inter.atoms[0]:
                listed.add(frozenset((inter.atoms[0], x)))
    what = lambda: "residues %r nrexcl %r sizes %r shape %s: molecule nrexcl %r" % (names, nrexcl, size, shape, mol.nrexcl)
    sx.claim((effective | listed) == (expected | explicit_expected), "excluded pairs are exactly those within the exclusion distance of one of the two atoms' blocks, or explicitly excluded",
             lambda: what() + " missing %r, extra %r" % (sorted(map(sorted, (expected | explicit_expected) - (effective | listed))),
                                                        sorted(map(sorted, (effective | listed) - (expected | explicit_expected)))))
    if len(distinct) == 1:
        sx.claim(mol.nrexcl == list(distinct)[0], "uniform exclusion distance is kept", what)
        sx.claim(listed == explicit_expected, "no exclusions are invented for a uniform exclusion distance",
                 lambda: what() + " listed %r" % sorted(map(sorted, listed)))
