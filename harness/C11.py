"""C11 - Generated .itp files are written and re-read to the same molecule."""
import json
import os
import shutil
import tempfile
from pathlib import Path
import networkx as nx
import vermouth.forcefield
from vermouth.file_writer import DeferredFileWriter
from pverif.harness import condition, patched
from pverif import symx
import polyply.src.gen_itp as gi
import polyply.src.apply_links as al
from polyply.src.topology import Topology
from polyply.src.meta_molecule import MetaMolecule


class _Tqdm:
    def __init__(self, it=None, *a, **k):
        self.it = it

    def __iter__(self):
        return iter(self.it)


FF = """[ citations ]
refA
[ moleculetype ]
A 1
[ atoms ]
1 TA 1 A BB 1 0.25 36.0
2 TS 1 A SC 2 -0.25 45.5
[ bonds ]
BB SC 1 0.30 1000 {"ifdef": "FLEX"}
[ constraints ]
BB SC 1 0.30 {"ifndef": "FLEX"}
[ moleculetype ]
B 2
[ atoms ]
1 TB 1 B BB 1 0.0 72.0
2 TB 1 B S1 1 1.0 72.0
3 TB 1 B S2 2 -1.0 72.0
[ bonds ]
BB S1 1 0.27 8000
S1 S2 1 0.29 9000
[ angles ]
BB S1 S2 2 120.0 45.0
BB S1 S2 10 130.0 25.0 {"version": 2}
[ exclusions ]
BB S2
[ link ]
resname "A"
[ bonds ]
BB +BB 1 0.35 4000
[ link ]
resname "A|B"
[ bonds ]
BB {"resname": "A"} +BB {"resname": "B"} 1 0.37 4400 {"comment": "mixed", "ifdef": "SOFT_JUNCTION"}
[ link ]
resname "A|B"
[ bonds ]
BB {"resname": "B"} +BB {"resname": "A"} 1 0.38 4500
[ link ]
resname "A|B"
[ angles ]
BB +BB ++BB 2 127.0 30.0 {"ifdef": "ANGLES"}
[ link ]
resname "B"
[ constraints ]
BB +BB 1 0.41 {"ifndef": "FLEX"}
"""
FF_WARN = """[ moleculetype ]
C 1
[ atoms ]
1 TC 1 C C1 1 0.1 14.0
2 TO 1 C O1 1 -0.3 16.0
3 TH 1 C H1 1 0.2 1.0
[ bonds ]
C1 O1 1 0.143 7000
O1 H1 1 0.096 5000
[ warning ]
C end-cap parameters are preliminary.
[ link ]
resname "C"
[ atoms ]
H1 {"replace": {"atomname": null}}
[ bonds ]
O1 +C1 1 0.141 7000
"""
BIB = ("@article{refA,\n author = {Doe, Jane and Mustermann, Erika and Rossi, Mario and Dupont, Jean and Jansen, Jan and Kowalski, Jan and "
       "Svensson, Sven and Hansen, Hans and Garcia, Juan and Smith, John and Ivanov, Ivan and Novak, Jan and Papadopoulos, Giorgos},\n"
       " title = {a citation that is much longer than one hundred characters once it has been formatted for the header},\n"
       " journal = {Journal of Long Author Lists},\n year = {2020},\n doi = {10.1000/very-long-doi-string-0123456789}\n}\n")


def canon_mol(mol):
    order = {n: i for i, n in enumerate(sorted(mol.nodes))}
    atoms = [(mol.nodes[n]["atomname"], mol.nodes[n]["atype"], int(mol.nodes[n]["resid"]), mol.nodes[n]["resname"],
              round(float(mol.nodes[n].get("charge", 0.0)), 6), round(float(mol.nodes[n].get("mass", 0.0)), 6)) for n in sorted(mol.nodes)]
    inters = {}
    for t, lst in mol.interactions.items():
        for i in lst:
            guard = tuple(sorted((k, str(v)) for k, v in i.meta.items() if k in ("ifdef", "ifndef")))
            try:
                params = tuple(round(float(p), 6) if _isnum(p) else str(p) for p in i.parameters)
            except Exception:
                params = tuple(str(p) for p in i.parameters)
            k = (t, tuple(order[a] for a in i.atoms), params, guard)
            inters[k] = inters.get(k, 0) + 1
    return atoms, inters


def _isnum(p):
    try:
        float(p)
        return True
    except (TypeError, ValueError):
        return False


@condition("C11.round_trip",
           anchors=["polyply.src.gen_itp:gen_params", "polyply.src.topology:Topology.from_gmx_topfile", "polyply.src.top_parser:TOPDirector.finalize",
                    "polyply.src.meta_molecule:MetaMolecule.from_itp", "polyply.src.meta_molecule:_make_edges"],
           rejects=(), selector_only=True, must_cover=["written", "read back", "constraint-only connection", "guarded terms", "json graph", "log entry with removed atom"],
           outside=["numeric formatting beyond 6 decimals", ".rtp input", "the KeyError gen_params raises after writing when a log entry refers to a removed atom (observed; the file is written)"],
           cfg={"path_timeout_s": 120},
           bounds={"quick": dict(nmax=3), "thorough": dict(nmax=4)},
           budget={"quick": 280, "thorough": 1200})
def round_trip(sx, B):
    """Real gen_params on generated input files (blocks with charges/masses, #ifdef/#ifndef-guarded terms, versioned terms,
    exclusions; links made of bonds, of a constraint only, and a guarded three-residue angle; citations; a block with a [ warning ]
    entry and an atom-removing link) for a solver-chosen sequence (-seq or a .json residue graph), then the real
    Topology.from_gmx_topfile and MetaMolecule.from_itp on the product. Claims: the file exists; atoms (name, type, residue id and
    name, charge, mass) and interactions (atoms, parameters, guards) read back equal those of the molecule that was built; when no
    link is missing the recovered residue graph is isomorphic to the requested one with equal residue names and ids."""
    mode = sx.sel("input", ["seq", "json", "warn"])
    n = int(sx.int("n", 1, B["nmax"]))
    d = tempfile.mkdtemp(prefix="pverif_", dir=os.environ.get("TMPDIR"))
    DeferredFileWriter().open_files.clear()
    try:
        (Path(d) / "in.bib").write_text(BIB)
        kw = {}
        if mode == "warn":
            names = ["C"] * n
            (Path(d) / "in.ff").write_text(FF_WARN)
            kw["seq"] = ["C:%d" % n]
            req_edges = [(i, i + 1) for i in range(n - 1)]
            sx.cover("log entry with removed atom")
        else:
            names = [sx.sel("res%d" % i, ["A", "B"]) for i in range(n)]
            (Path(d) / "in.ff").write_text(FF)
            if mode == "seq":
                kw["seq"] = ["%s:1" % x for x in names]
                req_edges = [(i, i + 1) for i in range(n - 1)]
            else:
                shape = sx.sel("shape", ["path", "star"]) if n >= 3 else "path"
                req_edges = [(i, i + 1) for i in range(n - 1)] if shape == "path" else [(0, i) for i in range(1, n)]
                g = {"directed": False, "multigraph": False, "graph": {},
                     "nodes": [{"id": i, "resname": names[i], "resid": i + 1} for i in range(n)],
                     "links": [{"source": a, "target": b} for a, b in req_edges], "edges": [{"source": a, "target": b} for a, b in req_edges]}
                (Path(d) / "seq.json").write_text(json.dumps(g))
                kw["seq_file"] = Path(d) / "seq.json"
                sx.cover("json graph")
        built = {}
        real_write = gi.vermouth.gmx.itp.write_molecule_itp

        def capture(molecule, outfile, *a, **k):
            built["mol"] = molecule
            return real_write(molecule, outfile, *a, **k)
        out = Path(d) / "out.itp"
        post_error = None
        handles = []
        real_open = gi.deferred_open

        def capturing_open(*a, **k):
            h = real_open(*a, **k)
            handles.append(h)
            return h

        class WriterProxy:
            def write(self_inner):
                sx.claim(len(handles) >= 1 and all(h.closed for h in handles), "the staged file is complete (closed) when it is moved into place")
                return DeferredFileWriter().write()
        with patched(gi.vermouth.gmx.itp, write_molecule_itp=capture), patched(al, tqdm=_Tqdm), \
                patched(gi, deferred_open=capturing_open, DeferredFileWriter=WriterProxy):
            try:
                gi.gen_params(name="mol", outpath=out, inpath=[Path(d) / "in.ff", Path(d) / "in.bib"], **kw)
            except KeyError as err:
                # known: printing the log entries of the molecule trips over atoms a link removed - after the file was written
                post_error = err
                if mode != "warn" or "mol" not in built:
                    raise
        sx.claim(out.exists() and out.stat().st_size > 0, "gen_params writes its output file", lambda: "%s: %r" % (kw, post_error))
        if not out.exists():
            return
        sx.cover("written")
        # history: the same process has read another topology before whose molecule type has the same name and as many atoms but
        # other residues - nothing of it may show up in what is read now
        natoms = 0
        sec = None
        for line in out.read_text().split("\n"):
            line = line.split(";")[0].strip()
            if line.startswith("["):
                sec = line.strip("[] ")
            elif line and sec == "atoms" and not line.startswith("#"):
                natoms += 1
        prime = ["[ moleculetype ]", "mol 1", "[ atoms ]"] + ["%d TZ 1 ZZ z%d %d 0.0 1.0" % (i + 1, i + 1, i + 1) for i in range(natoms)]
        if natoms > 1:
            prime += ["[ bonds ]"] + ["%d %d 1 0.3 100" % (i + 1, i + 2) for i in range(natoms - 1)]
        (Path(d) / "prime.itp").write_text("\n".join(prime) + "\n")
        (Path(d) / "prime.top").write_text('#include "prime.itp"\n[ system ]\nt\n[ molecules ]\nmol 1\n')
        Topology.from_gmx_topfile(str(Path(d) / "prime.top"), "prime")
        (Path(d) / "sys.top").write_text('#include "out.itp"\n[ system ]\nt\n[ molecules ]\nmol 1\n')
        top = Topology.from_gmx_topfile(str(Path(d) / "sys.top"), "sys")
        ffi = vermouth.forcefield.ForceField(name="x")
        meta2 = MetaMolecule.from_itp(ffi, str(out), "mol")
    finally:
        DeferredFileWriter().open_files.clear()
        shutil.rmtree(d, ignore_errors=True)
    sx.cover("read back")
    mol = built["mol"]
    a0, i0 = canon_mol(mol)
    meta = top.molecules[0]
    a1, i1 = canon_mol(meta.molecule)
    what = lambda: "%s %r" % (mode, names)
    sx.claim(a1 == a0, "atoms read back (name, type, residue, charge, mass) equal the built molecule's",
             lambda: what() + "\nbuilt %r\nread  %r" % (a0, a1))
    sx.claim(i1 == i0, "interactions read back (atoms, parameters, #ifdef/#ifndef guards) equal the built molecule's",
             lambda: what() + "\nonly built: %r\nonly read: %r" % (sorted(k for k in i0 if i0[k] != i1.get(k)), sorted(k for k in i1 if i1[k] != i0.get(k))))
    a2, i2 = canon_mol(meta2.molecule)
    sx.claim(a2 == a0 and i2 == i0, "MetaMolecule.from_itp reads the same molecule")
    if any(k[3] for k in i0):
        sx.cover("guarded terms")
    # was any link missing? (recount on the built molecule)
    resid_of = {a: mol.nodes[a]["resid"] for a in mol.nodes}
    joined = set()
    for t in ("bonds", "constraints"):
        for i in mol.interactions.get(t, []):
            if resid_of[i.atoms[0]] != resid_of[i.atoms[1]]:
                joined.add(frozenset((resid_of[i.atoms[0]], resid_of[i.atoms[1]])))
    complete = all(frozenset((a + 1, b + 1)) in joined for a, b in req_edges)
    if complete:
        want = nx.Graph()
        for i in range(n):
            want.add_node(i, resname=names[i], resid=i + 1)
        want.add_edges_from(req_edges)
        if any(names[a] == "B" and names[b] == "B" for a, b in req_edges):
            sx.cover("constraint-only connection")
        for label, g in (("topology reader", meta), ("from_itp", meta2)):
            got = nx.Graph()
            for k in g.nodes:
                got.add_node(k, resname=g.nodes[k]["resname"], resid=g.nodes[k]["resid"])
            got.add_edges_from(g.edges)
            iso = nx.is_isomorphic(got, want, node_match=lambda x, y: x["resname"] == y["resname"] and x["resid"] == y["resid"])
            sx.claim(iso, "the residue graph recovered from the file is the requested one (names, ids, connections)",
                     lambda: what() + " via %s: nodes %r edges %r, requested edges %r" % (label, sorted(got.nodes(data=True)), sorted(got.edges), req_edges))
