#!/usr/bin/env python3
"""Regenerates /verif/MANIFEST.json from the table below (kept here so the file stays valid and consistent)."""
import json, os
ROOT = os.path.dirname(os.path.dirname(os.path.abspath(__file__)))
BASE = "cd /repo && /venv/bin/python -m pytest -ra -q -p no:cacheprovider --timeout=900 --continue-on-collection-errors"
CONDITIONS = {
 "C01": "layout, multi_residue, modifications, gen_params_mods, guarded_links", "C02": "catalogue (18 link families), dangling",
 "C03": "box_rule, density_box, order, completeness, end_to_end, accepted_is_built, engine_positions", "C04": "consume, coordfile, retry_ignore, backmap_flagged, rewind_supplied, end_to_end, templates_centred",
 "C05": "step, step_length, acceptance, overlap, start_on_grid, start_check, engine_histories", "C06": "rotation, placement, centred, templates_centred, factor_wiring",
 "C07": "geometry, direction, min_image, milestones, bounds, cycles, end_to_end, build_file_selection, own_restraints, cycles_all_copies", "C08": "flatten (known finding F20)",
 "C09": "dihedral_match, bonded, bonded_misc, nonbonded", "C10": "missing_edges, warnings, connectivity_gate, fragments, after_removal",
 "C11": "round_trip", "C12": "plain, files, linear, genseq, genseq_from_file, plain_strings (CrossHair)", "C13": "relabel, history, hash_seed, json_listing_order, termini_order",
 "C14": "exclusions", "C15": "virtual_sites, dihedral_sign, grouping, verdict, precedence, size_coincident", "C16": "histories, force_law, min_image",
 "C17": "rewind", "C18": "build_file_ranges, residue_spec, split, ligands, molecule_sections (known finding F22b), spec_strings (CrossHair), ligands_by_name",
 "C19": "complement, gen_params", "C20": "gen_params, gen_coords, gen_seq",
}
NOTE_COMMON = ("Trusted base: z3 5.1 (verdicts), CPython/numpy/networkx/vermouth as the semantics the real code runs on, the symx "
               "proxy layer (validated on every run by the engine self-check and by concrete replay of explored paths). "
               "Floats are modelled as mathematical reals. Nothing is claimed outside the bounds listed in the evidence file.")
CLAIMED = {
 "C17": dict(text="Bounded symbolic model checking of the real BuildSystem/RandomWalk/NonBondEngine code: every success/failure schedule "
                  "of single placement steps (symbolic booleans, up to the stated number of calls), every rewind depth in range, every "
                  "catalogue shape and set of pre-positioned residues is explored path by path with z3 deciding each branch; invariants "
                  "are checked after every interposed placement call.",
             design="DESIGN.md 4/C17",
             technique="symbolic execution of the real Python code with z3 (symx), bounded exhaustive over failure schedules",
             note="update_positions is replaced by a scripted outcome (its geometry is C05/C07); bounds: see evidence.conditions.*.bounds. " + NOTE_COMMON),
}
CLAIMED["C19"] = dict(text="Bounded symbolic model checking of the real complement_dsDNA/_dna_edge_iterator/add_monomer: strand length and every residue "
                  "name are solver variables (finite selectors), linear and circular; an independent pairing rule is the oracle in both directions "
                  "(names, ids, edges, labels, involution, rejection of unknown names).",
             design="DESIGN.md 4/C19", technique="symbolic execution of the real Python code with z3 (symx); selector-only, exhaustive within the bound",
             note="strand length <= bound, names from the stated alphabet (all 12 table names + unknown names). " + NOTE_COMMON)
CLAIMED["C12"] = dict(text="Bounded symbolic model checking of the real sequence readers/builders and gen_seq: sequence length, every character / residue name, "
                  "line breaks, terminators, block counts, macro levels and branching, connect records, termini and labels are solver variables; oracles are "
                  "independently written IUPAC tables and a closed-form tree/offset computation; gen_seq output is read back by the real JSON reader.",
             design="DESIGN.md 4/C12", engine="symx + crosshair", technique="symbolic execution of the real Python code with z3: symx (selectors, real files) and CrossHair (z3 string theory) for _parse_plain on arbitrary characters",
             note="characters from a stated alphabet (not arbitrary Unicode), sizes as in evidence bounds; statistical residue mixes excluded. " + NOTE_COMMON)
CLAIMED["C09"] = dict(text="Bounded symbolic model checking of the real parameter resolution: match_dihedral_interaction_types over every atom-type tuple and "
                  "every pair of table entries (all 16 wildcard masks); read_topology + preprocess on generated topologies (mask, direction, terms, "
                  "molecule layouts solver-chosen) against an independent least-wildcard oracle; gen_pairs/convert_nonbond_to_sig_eps with symbolic "
                  "positive reals (nonlinear obligations 4*eps*sig^6 = C6, 4*eps*sig^12 = C12 discharged by z3).",
             design="DESIGN.md 4/C09", technique="symbolic execution of the real Python code with z3 (symx): selectors for tables, symbolic reals (QF_NRA) for non-bonded values",
             note="table sizes, type alphabets and molecule layouts as in the evidence bounds; ties between equally specific dihedral types are left open; reals not floats. " + NOTE_COMMON)
CLAIMED["C07"] = dict(text="Bounded symbolic model checking of the real restraint code with symbolic reals: geometric predicates (accepted => definition), "
                  "direction restriction, pbc_min_dist == independently stated minimum image (catalogue boxes, quotient forking), checks_milestones "
                  "(accepted iff within bounds, distance taken by minimum image to the reference residue), set_restraints bounds on chains with "
                  "symbolic distance/tolerance/sizes, cycle initialisation on rings of every size/labelling/insertion order, end-to-end sampling support.",
             design="DESIGN.md 4/C07", technique="symbolic execution of the real Python code with z3 (symx), QF_NRA/QF_LRA obligations; selectors for graph shapes",
             note="reals not floats; arccos/degrees uninterpreted monotone; statistical shape of sampling and `bendiness` excluded; composition of the lemmas (every generated "
                  "residue passes update_positions, C05) is by reading the real control flow, not by one end-to-end symbolic run. " + NOTE_COMMON)
CLAIMED["C04"] = dict(text="Bounded symbolic model checking of the real add_positions_from_file (number of supplied rows symbolic, skip list / resolution / index "
                  "permutation solver-chosen, independent consumption model as oracle), of BuildSystem.run_system with an ignored molecule type at every "
                  "place and a partially supplied chain under every failure schedule of placement steps (symbolic booleans), and of Backmap on every "
                  "assignment of backmap flags.",
             design="DESIGN.md 4/C04", technique="symbolic execution of the real Python code with z3 (symx), bounded exhaustive over schedules and input splits",
             note="coordinate file parsing (vermouth read_gro/read_pdb) is replaced by a sentinel array; update_positions scripted; system layouts from a catalogue. " + NOTE_COMMON)
CLAIMED["C16"] = dict(text="Bounded symbolic model checking of the real NonBondEngine: every add/remove/concatenate history of the stated length (operation, residue, "
                  "point, subset solver-chosen; with and without 5 001 pre-positioned residues so that a second tree is opened) with view-consistency, "
                  "get_point and a brute-force minimum-image force reference after every step; the Lennard-Jones force law and the minimum-image "
                  "distance properties are discharged over symbolic reals.",
             design="DESIGN.md 4/C16", technique="symbolic execution of the real Python code with z3 (symx): selector-driven histories on real scipy KD-trees, QF_NRA obligations for the force law and minimum image",
             note="scipy KD-trees trusted (run concretely on catalogue points); add only on unpositioned residues (precondition of every caller); reals not floats. " + NOTE_COMMON)
CLAIMED["C05"] = dict(text="Bounded symbolic model checking of the real placement code as five lemmas: _take_step/pbc_complete with symbolic point, unit vector and step "
                  "length (in box; minimum-image distance == step), the step length handed down by update_positions with the real interaction matrix over "
                  "symbolic sizes, the acceptance logic with every predicate outcome symbolic per trial, the overlap rule (0.1 nm floor incl. bonded neighbours, "
                  "force summed over exactly the non-excluded residues of all trees) with symbolic neighbour distances, and the start on a grid point.",
             design="DESIGN.md 4/C05", technique="symbolic execution of the real Python code with z3 (symx): QF_NRA obligations for the step, symbolic booleans for the acceptance logic, contract stub for the KD-tree query",
             note="scipy's sparse_distance_matrix replaced by its contract; step <= half the shortest box edge assumed; boxes from a catalogue; reals not floats; the lemmas compose through the real control flow of update_positions (read, not executed end to end). " + NOTE_COMMON)
CLAIMED["C06"] = dict(text="Bounded symbolic model checking over symbolic reals of the real _rotate_xyz/_matrix_multiplication (R^T R = I, det R = 1, R = Rz Ry Rx, "
                  "rotate(X) = R X for generic X) with abstract (cos, sin) pairs, of the real Backmap/orient_template on molecules from the real reader with "
                  "symbolic centred templates, residue positions, factor and three arbitrary optimiser angles (centre of geometry, every pair distance, "
                  "signed volume, own-atom-name mapping, congruent second copy, templates unchanged), and of map_from_CoG.",
             design="DESIGN.md 4/C06", technique="symbolic execution of the real Python code with z3 (symx), QF_NRA obligations decided by fresh solvers on the cone of influence",
             note="scipy.optimize.minimize replaced by three arbitrary angles (covers every optimiser outcome), np.random.uniform by zeros, float64 allocations by object arrays; templates of <= 4 atoms; reals not floats. " + NOTE_COMMON)
CLAIMED["C01"] = dict(text="Bounded symbolic model checking of the real parsers + MapToMolecule + ApplyLinks + ApplyModifications against an independent layout oracle: "
                  "block sizes, input syntax, two-term interactions, link presence, residue graph (size, shape, names, order of residue ids vs node keys, "
                  "key labelling), multi-residue fragments (single, mixed, doubled) and modification targets are solver-chosen; the residue-id offset, charge "
                  "groups, charges and masses are symbolic terms, so one path covers every offset and every numeric attribute value.",
             design="DESIGN.md 4/C01", technique="symbolic execution of the real Python code with z3 (symx): symbolic integers/reals for offsets and attributes, selectors for structure",
             note="blocks of <= 3 atoms (+ one two-residue block), residue graphs of <= 3 (quick) / 4-5 (thorough) residues; .rtp input, parameter rendering and -mods spec parsing are outside. " + NOTE_COMMON)
CLAIMED["C14"] = dict(text="Bounded symbolic model checking of the real tag_exclusions / MapToMolecule / ApplyLinks(expand_excl, neighborhood): residue graph, residue names, "
                  "per-block exclusion distance (0..4), block sizes, explicit block and link exclusions are solver-chosen; a breadth-first recount of bond-graph "
                  "distances is the oracle, compared as sets in both directions.",
             design="DESIGN.md 4/C14", technique="symbolic execution of the real Python code with z3 (symx); selector-only (exclusion distances are hashed by the code), exhaustive within the bound",
             note="chains/cycles/stars of <= 3 (quick) / 4 (thorough) residues, blocks of <= 3 atoms, bonds from next-residue links. " + NOTE_COMMON)
CLAIMED["C02"] = dict(text="Bounded symbolic model checking of the real parsers + MapToMolecule + ApplyLinks for a catalogue of link definitions (orders +1/+2/-1, >, *, "
                  "residue-name choices, replace, atom removal, non-edge and pattern vetoes, competing definitions with equal/different version) and for dangling "
                  ".itp interactions, on residue graphs whose size, shape, names (incl. an ambiguous atom name), residue-id order, labelling and a labelled "
                  "edge are solver-chosen and whose residue-id offset is symbolic; an independently written application rule per catalogue entry is the oracle, "
                  "compared in both directions (interactions, edges, attributes, atoms).",
             design="DESIGN.md 4/C02", technique="symbolic execution of the real Python code with z3 (symx): symbolic residue-id offset, selectors for structure; per-entry reference rules",
             note="the catalogue (13 link families + 6 dangling forms) bounds the link definitions; explicit by_atom_id links and callable parameters are outside; <= 3 (quick) / 4 (thorough) residues. " + NOTE_COMMON)
CLAIMED["C10"] = dict(text="Bounded symbolic model checking of the real find_missing_edges/find_connecting_edges after the real MapToMolecule+ApplyLinks with additional "
                  "atom-level edges injected through symbolic booleans (recount oracle, both directions), of the warnings of the real gen_params against the "
                  "bonds of the written .itp, and of the connectivity gate _check_molecules on topologies with a solver-chosen missing bond and molecule layout.",
             design="DESIGN.md 4/C10", technique="symbolic execution of the real Python code with z3 (symx): symbolic booleans for inter-residue edges, selectors for graphs and layouts",
             note="residue graphs of <= 4 residues, blocks of <= 2 atoms; atoms disconnected inside one residue are outside the gate named in the anchors. " + NOTE_COMMON)
CLAIMED["C13"] = dict(text="Metamorphic bounded symbolic model checking: the real pipeline is run on an input and on a transformed copy inside one path (node keys, insertion "
                  "order, edge orientation/order, definition and file order; multi-residue fragments), and the real gen_params is re-run after solver-chosen "
                  "histories of other calls in the same process; outputs are compared canonically / byte-wise.",
             design="DESIGN.md 4/C13", technique="symbolic execution of the real Python code with z3 (symx); selector-driven metamorphic comparison, real files for the history condition",
             note="no oracle is needed (the code is compared with itself); residue graphs of <= 3 (quick) / 4 (thorough) residues; histories of <= 2 preceding runs; hash randomisation across processes is outside. " + NOTE_COMMON)
CLAIMED["C08"] = dict(text="Metamorphic bounded symbolic model checking of the real topology reader: a .top assembled from k solver-chosen lines (defines, conditionals, "
                  "includes of a nested include tree, #error, comments, an inline moleculetype, a guarded type entry) and a solver-chosen [ molecules ] list is read "
                  "from real files; an independent preprocessor flattens it and the same reader reads the result; all parsed tables, blocks, the expanded molecule "
                  "list, instance independence, #error and malformed-nesting behaviour are compared.",
             design="DESIGN.md 4/C08", technique="symbolic execution of the real Python code with z3 (symx): selector-driven line sequences, real files in a per-path temp dir, independent flattening oracle",
             note="k <= 3 (quick) / 4 (thorough) free lines over a 13-17 entry alphabet; #define inside conditionals, nested conditionals, macros with values and data lines continuing a section across an include are outside. " + NOTE_COMMON)
CLAIMED["C18"] = dict(text="Bounded symbolic model checking of the real build-file parser (molecule index and residue-id ranges symbolic, rendered into generated build "
                  "files; several directive lines per kind; repeated/interleaved molecule names; a molecule whose residues are not stored in id order), of "
                  "parse_residue_spec/_find_nodes/find_starting_node_from_spec over every subset of omitted fields (incl. residue id 0), of split_residue over every "
                  "assignment of atoms to new residues, and of AnnotateLigands attach/hand-back.",
             design="DESIGN.md 4/C18", engine="symx + crosshair", technique="symbolic execution of the real Python code with z3: symx (symbolic range bounds concretised by solver-driven forking) and CrossHair (z3 string theory) for parse_residue_spec on arbitrary name strings",
             note="ranges within 0..4 (quick) / 0..6 (thorough); names from a fixed set (no '#'/'-' inside names, no arbitrary unicode: the planned CrossHair string run is not included); placement of ligands is C05/C17. " + NOTE_COMMON)
CLAIMED["C03"] = dict(text="Bounded symbolic model checking as four lemmas on the real code: the body of gen_coords with its heavy stages stubbed and symbolic box "
                  "vectors (box precedence, written box, stage order), BuildSystem.__init__/_compute_box_size with symbolic masses and density (cubic box, "
                  "edge^3 = 1.660541 M / rho up to the rounding), the real reader + convert_to_vermouth_system + vermouth write_gro over symbolic [ molecules ] "
                  "counts and names (atom order, numbering, names, own coordinates, box line), and completeness of positions under every failure schedule.",
             design="DESIGN.md 4/C03", technique="symbolic execution of the real Python code with z3 (symx): symbolic reals for box/mass/density (QF_NRA), symbolic counts, symbolic failure schedules",
             note="gen_coords is not executed end to end symbolically: the lemmas compose through its real control flow under stubs; finiteness of numbers produced by scipy is assumed; -grid file parsing and .pdb input are outside. " + NOTE_COMMON)
CLAIMED["C20"] = dict(text="Bounded symbolic exploration of crash points on the real gen_params, gen_coords and gen_seq with real files in a per-path temp dir: the stage at "
                  "whose boundary a fault is injected (every stage of the three programs, before - and for serialisation also after - the stage; or none), the "
                  "presence of an output file and the number of existing backups are solver-chosen; the directory listing and all file contents are compared "
                  "with the pre-state on failure, and the complete file / first free GROMACS backup name / untouched older backups are checked on success.",
             design="DESIGN.md 4/C20", technique="symbolic execution of the real Python code with z3 (symx): solver-chosen crash point and pre-state (selector-only, exhaustive over stage boundaries)",
             note="crash = exception at a stage boundary (not process kill); one run per path; the temporary file a failed call leaves registered in vermouth's singleton writer is outside the claim. " + NOTE_COMMON)
CLAIMED["C11"] = dict(text="Bounded symbolic exploration of the real gen_params -> .itp -> Topology.from_gmx_topfile / MetaMolecule.from_itp round trip with real files: "
                  "the sequence (names, length), the input form (-seq, .json residue graph incl. a star, a block with a log entry and an atom-removing link) are "
                  "solver-chosen; atoms, interactions with guards, and (when no link is missing by recount) the recovered residue graph are compared with the "
                  "molecule captured at the writer.",
             design="DESIGN.md 4/C11", technique="symbolic execution of the real Python code with z3 (symx): selector-only round-trip over formats with real files",
             note="values are concrete (this is a format round trip); force field of three block kinds with bonds/constraints/guards/versions/exclusions/citations; <= 3 (quick) / 4 (thorough) residues; number formatting beyond 6 decimals is outside. " + NOTE_COMMON)
CLAIMED["C15"] = dict(text="Bounded symbolic model checking over symbolic reals of the real virtual-site constructions against independently written GROMACS formulas "
                  "(weights for 2/3/n/3out, defining relations for 3fd, formula identity with abstracted norms for 3fad/4fdn), of the dihedral sign convention, of "
                  "the optimisation verdict with arbitrary optimiser results (tolerances on bonds, constraints, angles; virtual sites renewed), of residue "
                  "grouping by hash over every atom naming/order/bonding of a three-atom residue, and of build-file template/volume precedence.",
             design="DESIGN.md 4/C15", technique="symbolic execution of the real Python code with z3 (symx): QF_NRA obligations for the geometry, selectors for residue definitions and build files",
             note="scipy.optimize.minimize replaced by arbitrary positions; norms abstracted for two constructions; residues of <= 3 atoms for grouping; Kamada-Kawai layout and the optimiser's convergence are outside; reals not floats (tolerances relaxed by 1e-9). " + NOTE_COMMON)
NOT_YET = {}
def main():
    props = [json.loads(l) for l in open(os.path.join(ROOT, "properties.jsonl"))]
    checks, na = [], []
    for p in props:
        pid = p["id"]
        if pid in CLAIMED:
            c = CLAIMED[pid]
            checks.append({
                "property_id": pid,
                "quick_cmd": "./vcheck %s --tier quick" % pid,
                "thorough_cmd": "./vcheck %s --tier thorough" % pid,
                "evidence_file": "/verif/evidence/%s.json" % pid,
                "replay_cmd_template": "/verif/.venv/bin/python {path}",
                "engine": c.get("engine", "symx"),
                "level_claimed": {"category": "model_checking", "text": c["text"], "design_ref": c["design"]},
                "level_note": c["note"] + " Conditions of this check: " + CONDITIONS[pid] + " (DESIGN.md 9.3; bounds, stubs and what lies outside are listed per condition in the evidence file).",
                "technique": c["technique"],
            })
        else:
            na.append({"property_id": pid, "reason": NOT_YET.get(pid, "harness not landed yet in this revision of /verif (planned, see DESIGN.md section 4); no claim is made")})
    m = {
        "version": 1,
        "setup_cmd": "./setup.sh",
        "hooks": {"guard": "POLYPLY_VERIF (unused: no source hooks; all stubs are run-time attribute substitutions made by the harness process)",
                  "enable": "none needed; checks import polyply from /repo's working tree",
                  "baseline_off_cmd": BASE, "source_commits": [], "add_only": True},
        "engines": [{"name": "symx", "path": "/verif/pverif/symx", "serves_properties": sorted(CLAIMED),
                     "kind_free_text": "proxy-based symbolic execution of the real Python code with z3 (DFS by re-execution)"},
                    {"name": "crosshair", "path": "/verif/pverif/chx.py", "serves_properties": ["C12", "C18"],
                     "kind_free_text": "CrossHair 0.0.110 symbolic execution (z3 string theory) of contract functions over the real string parsers"}],
        "checks": checks,
        "not_applicable": na,
        "notes": "See DESIGN.md. Exit 0 = held within bounds; 1 = reproduced violation; 2 = harness error / inconclusive machinery.",
    }
    json.dump(m, open(os.path.join(ROOT, "MANIFEST.json"), "w"), indent=1)
if __name__ == "__main__":
    main()
