#!/usr/bin/env python3
"""usage: tools/seedkeep.py PROP VARIANT 'needs ...' 'caught-by ...' exitcode  -> /verif/seeded/PROP-VARIANT/"""
import sys, os, shutil, json
prop, var, needs, caught, rc = sys.argv[1:6]
RND = os.environ.get("SEED_ROUND", "4")
src = "/tmp/seeded%s/%s/%s" % (RND, prop, var)
dst = "/verif/seeded/%s-r%s%s" % (prop, RND, var)
os.makedirs(dst, exist_ok=True)
for f in ("patch.diff", "demo.py", "notes.md"):
    if os.path.exists(os.path.join(src, f)):
        shutil.copy(os.path.join(src, f), dst)
meta = {"property": prop, "breaks": open(os.path.join(src, "notes.md")).read().split("\n\n")[0][:600] if os.path.exists(os.path.join(src, "notes.md")) else "",
        "needs_to_manifest": needs,
        "confirmed": ("tools/seedcheck.sh %s /verif/seeded/%s-r" + RND + "%s : demo exits 0 on the clean tree and 1 with the patch; repository test suite with the patch: 39 failed, 474 passed, 8 errors (same as the clean tree at that time)") % (prop, prop, var),
        "check_result": {"cmd": "./vcheck %s --tier quick (patch applied to /repo, reverted afterwards)" % prop, "exit": int(rc), "caught_by": caught}}
json.dump(meta, open(os.path.join(dst, "meta.json"), "w"), indent=1)
print(dst)
