#!/bin/bash
# usage: tools/seedcheck.sh <PROP> <variant-dir> [tier] [--notests]
# variant-dir holds patch.diff and demo.py. Confirms the mutant in a scratch worktree (tests + demo),
# then applies it to /repo, runs the property's check, and reverts /repo.
set -u
P=$1; D=$(realpath $2); TIER=${3:-quick}; NOTESTS=${4:-}
WT=/tmp/wt/seedcheck_$$
git -C /repo worktree add -q --detach $WT HEAD || exit 3
cd $WT
/venv/bin/python $D/demo.py >/dev/null 2>&1; clean=$?
if ! git apply $D/patch.diff; then echo "PATCH DOES NOT APPLY"; cd /; git -C /repo worktree remove --force $WT; exit 3; fi
/venv/bin/python $D/demo.py >/dev/null 2>&1; mut=$?
tests="skipped"
if [ -z "$NOTESTS" ]; then tests=$(/venv/bin/python -m pytest -q -p no:cacheprovider -n 8 2>&1 | tail -1); fi
cd /; git -C /repo worktree remove --force $WT
echo "demo clean=$clean mutated=$mut tests: $tests"
git -C /repo apply $D/patch.diff || exit 3
cd /verif; ./vcheck $P --tier $TIER > /tmp/seedcheck_$P.log 2>&1; rc=$?
git -C /repo checkout -- .
echo "vcheck $P $TIER exit=$rc"; grep -m3 "^VIOLATION\|^HARNESS-ERROR" /tmp/seedcheck_$P.log; grep -m2 "claim=" /tmp/seedcheck_$P.log | cut -c1-300
