"""Engine B: CrossHair (symbolic execution with z3's string theory) on contract modules in /verif/chx (DESIGN 1.3).
Only "Confirmed over all paths" counts as held; "Not confirmed"/"Unable to meet precondition" are inconclusive; a reported
counterexample is replayed by a plain concrete call before it is reported as a violation."""
import ast
import importlib.util
import os
import re
import subprocess
import sys
import time
from concurrent.futures import ThreadPoolExecutor

ROOT = os.path.dirname(os.path.dirname(os.path.abspath(__file__)))


def _line_of(path, func):
    tree = ast.parse(open(path).read())
    for node in tree.body:
        if isinstance(node, ast.FunctionDef) and node.name == func:
            return node.lineno + 1
    raise KeyError(func)


def _run_one(path, func, timeout):
    line = _line_of(path, func)
    t0 = time.time()
    env = dict(os.environ)
    env["PYTHONPATH"] = ROOT + os.pathsep + env.get("PYTHONPATH", "")
    try:
        p = subprocess.run([sys.executable, "-m", "crosshair", "check", "--report_all", "--per_condition_timeout", str(timeout),
                            "%s:%d" % (path, line)], capture_output=True, text=True, timeout=timeout * 3 + 120, env=env, cwd=ROOT)
        out = p.stdout + p.stderr
    except subprocess.TimeoutExpired:
        out = "info: Not confirmed. (runner timeout)"
    return func, out, time.time() - t0


def _replay(path, call):
    """concrete call of the contract function; True if the property really fails on this input"""
    spec = importlib.util.spec_from_file_location("chx_replay_mod", path)
    mod = importlib.util.module_from_spec(spec)
    spec.loader.exec_module(mod)
    try:
        return eval(call, mod.__dict__) is not True
    except Exception:  # noqa
        return True


def run_condition(cond, tier, nworkers):
    path = os.path.join(ROOT, cond.cfg["module"])
    funcs = cond.cfg["functions"][tier]
    timeout = cond.cfg["timeout"][tier]
    t0 = time.time()
    res = dict(paths=0, aborted=0, rejected=0, obligations=0, discharged=0, queries=0, solver_s=0.0, branches=0, forks=0,
               inconclusive=[], violations=[], known_hits=[], samples=[], replayed=0, replay_fail=[], covers={}, assumptions=[],
               unknown_branch=0, witness_unknown=0, errors=[], rejected_msgs={}, smt2=[], funcs=[], maxdepth=0, unexplored=0)
    with ThreadPoolExecutor(max_workers=max(1, min(nworkers, len(funcs)))) as ex:
        outs = list(ex.map(lambda f: _run_one(path, f, timeout), funcs))
    for func, out, dt in outs:
        res["obligations"] += 1
        res["paths"] += 1
        res["branches"] += 1
        res["solver_s"] += dt
        res["samples"].append({"condition": cond.id, "contract": func, "crosshair_output": out.strip().split("\n")[-1][-300:], "seconds": round(dt, 1)})
        if "Confirmed over all paths" in out:
            res["discharged"] += 1
            res["covers"][func] = 1
            continue
        m = re.search(r"error: (.*) when calling (.*)$", out, re.M)
        if m:
            call = re.sub(r"\s*\(which (returns|raises).*$", "", m.group(2).strip())
            real = _replay(path, call)
            res["violations"].append({"label": "%s: %s" % (func, m.group(1)[:120]), "inputs": {"call": call}, "detail": out.strip()[-400:],
                                      "confirmed": real, "cond": cond.id})
            continue
        res["inconclusive"].append("%s (CrossHair: %s)" % (func, "Unable to meet precondition" if "Unable to meet" in out else "Not confirmed"))
    res["funcs"] = list(cond.anchors)
    res["wall_s"] = time.time() - t0
    return res
