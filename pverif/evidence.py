"""Evidence writer (EVIDENCE.schema.json, level model_checking)."""
import json
import os

ROOT = os.path.dirname(os.path.dirname(os.path.abspath(__file__)))


def write(prop, tier, seed, conds, results, nviol, harness_errors, wall, selfcheck):
    tot = lambda k: sum(r.get(k, 0) for r in results.values())
    funcs = sorted(set(f for r in results.values() for f in r.get("funcs", [])))
    samples = []
    for r in results.values():
        samples.extend(r.get("samples", [])[:2])
    per = {}
    assumptions = []
    for c in conds:
        r = results[c.id]
        per[c.id] = {
            "what": c.doc.split("\n\n")[0].replace("\n", " ")[:600],
            "engine": c.engine,
            "paths": r["paths"], "paths_rejected_by_code": r["rejected"],
            "rejected_reasons": dict(list(r.get("rejected_msgs", {}).items())[:8]),
            "paths_aborted_by_assumption": r.get("aborted", 0),
            "obligations": r["obligations"], "discharged": r["discharged"],
            "inconclusive": len(r["inconclusive"]), "unexplored_subtrees": r.get("unexplored", 0),
            "queries": r["queries"], "solver_s": round(r["solver_s"], 2), "wall_s": round(r["wall_s"], 2),
            "branch_decisions": r["branches"], "forks": r["forks"], "max_decision_depth": r.get("maxdepth", 0),
            "paths_replayed_concretely": r["replayed"], "replay_divergences": len(r["replay_fail"]),
            "known_finding_hits": len(r["known_hits"]),
            "cover_points": r.get("covers", {}),
            "bounds": _jsonable(c.bounds[tier]), "stubs": c.stubs, "outside_claim": c.outside,
            "anchors_required": c.anchors, "selector_only": c.selector_only,
            "exhaustive": r.get("unexplored", 0) == 0 and not r["inconclusive"] and not r["errors"],
            "second_solver": r.get("second_solver"),
        }
        for a in list(c.assumes) + list(r.get("assumptions", [])):
            if a not in assumptions:
                assumptions.append(a)
    ev = {
        "property_id": prop, "tier": tier, "seed": seed, "level": "model_checking",
        "coverage": {
            "states": max(tot("paths"), 0),
            "transitions": max(tot("branches") + tot("forks"), 0),
            "traces_validated_against_impl": tot("replayed"),
            "samples": samples or [{"note": "no path produced a model"}],
            "obligations": tot("obligations"), "discharged": tot("discharged"),
            "inconclusive": sum(len(r["inconclusive"]) for r in results.values()),
            "queries": tot("queries"), "solver_s": round(tot("solver_s"), 2),
            "exhaustive": all(p["exhaustive"] for p in per.values()),
            "engine": "symx (z3 %s proxies over the real polyply code, DFS by re-execution)" % _z3v(),
            "functions_encoded": funcs,
            "conditions": per,
            "engine_selfcheck": {"cases": selfcheck.get("cases", 0), "failures": len(selfcheck.get("failures", []))},
            "harness_errors": harness_errors[:20],
            "explanation": "states = explored paths of the real code (each covers all values of its symbolic inputs); "
                           "transitions = solver-decided branch decisions and value forks; every obligation is the query "
                           "path-condition AND NOT claim, discharged = unsat.",
        },
        "assumptions": assumptions,
        "wall_s": round(wall, 2),
        "violations": nviol,
    }
    if ev["coverage"]["states"] < 1:
        ev["coverage"]["states"] = 0
    os.makedirs(os.path.join(ROOT, "evidence"), exist_ok=True)
    with open(os.path.join(ROOT, "evidence", "%s.json" % prop), "w") as f:
        json.dump(ev, f, indent=1, default=str)


def _jsonable(x):
    try:
        json.dumps(x)
        return x
    except TypeError:
        if isinstance(x, dict):
            return {str(k): _jsonable(v) for k, v in x.items()}
        if isinstance(x, (list, tuple, set)):
            return [_jsonable(v) for v in x]
        return repr(x)


def _z3v():
    import z3
    return z3.get_version_string()
