"""
symx - a small proxy-based symbolic executor for running the real polyply code on
z3 terms.  See DESIGN.md section 1.2.

A harness is an ordinary Python function `f(sx, B)`; `sx` is the path context.  The function is
executed natively once per path: symbolic booleans are decided by the solver in `__bool__`
(depth first, by re-execution with a decision prefix), symbolic integers that must become concrete
(index, hash, int()) are enumerated through the solver and forked.  `sx.claim` discharges the
query  path-condition AND NOT claim.

In *concrete mode* (replay) the same function gets plain python values and claims are plain
assertions with a tolerance.
"""
import math
import time
import itertools
from fractions import Fraction

import z3

__all__ = ["Ctx", "SymBool", "SymInt", "SymReal", "HarnessError", "PathAbort", "Rejected",
           "run_path", "is_sym", "sym_and", "sym_or", "sym_not", "sym_implies", "ite"]


class HarnessError(Exception):
    """The harness / engine cannot soundly continue (unmodelled operation, unbounded fork ...)."""


class PathAbort(BaseException):
    """Path ends here silently (infeasible assumption). BaseException so polyply code cannot swallow it."""


class Rejected(BaseException):
    """The code under test rejected the input with one of its documented diagnostics."""


class ClaimFailed(BaseException):
    """Concrete mode: a claim evaluated to False."""
    def __init__(self, label, detail=""):
        super().__init__(label, detail)
        self.label = label
        self.detail = detail


_CUR = None  # the active context (one per process)


def cur():
    if _CUR is None:
        raise HarnessError("no active symx context")
    return _CUR


def is_sym(x):
    return isinstance(x, (SymBool, SymInt, SymReal))


# --------------------------------------------------------------------------------------------
# helpers on z3 terms
# --------------------------------------------------------------------------------------------
def _fr(x):
    """python number -> Fraction, floats are read as the decimal their repr shows."""
    if isinstance(x, Fraction):
        return x
    if isinstance(x, bool):
        return Fraction(int(x))
    if isinstance(x, int):
        return Fraction(x)
    try:
        import numpy as _np
        if isinstance(x, _np.integer):
            return Fraction(int(x))
        if isinstance(x, _np.floating):
            x = float(x)
    except ImportError:  # pragma: no cover
        pass
    if isinstance(x, float):
        if not math.isfinite(x):
            raise HarnessError("non-finite float constant %r in symbolic arithmetic" % x)
        return Fraction(repr(x))
    raise TypeError("cannot convert %r to a rational" % (x,))


def _rv(x):
    f = _fr(x)
    return z3.RealVal("%d/%d" % (f.numerator, f.denominator))


_NL_CACHE = {}


def _is_nonlinear(t):
    """True if the term contains a product/division/power of non-constant terms."""
    key = t.get_id()
    r = _NL_CACHE.get(key)
    if r is not None:
        return r[0]
    r = False
    seen = set()
    stack = [t]
    while stack and not r:
        e = stack.pop()
        i = e.get_id()
        if i in seen:
            continue
        seen.add(i)
        if z3.is_app(e):
            k = e.decl().kind()
            ch = e.children()
            if k == z3.Z3_OP_MUL:
                nonconst = [c for c in ch if not (z3.is_rational_value(c) or z3.is_int_value(c))]
                if len(nonconst) >= 2:
                    r = True
            elif k in (z3.Z3_OP_DIV, z3.Z3_OP_IDIV, z3.Z3_OP_MOD, z3.Z3_OP_REM):
                if not (z3.is_rational_value(ch[1]) or z3.is_int_value(ch[1])):
                    r = True
            elif k == z3.Z3_OP_POWER:
                r = True
            stack.extend(ch)
    if len(_NL_CACHE) > 100000:
        _NL_CACHE.clear()
    _NL_CACHE[key] = (r, t)     # the term is kept alive so that its id cannot be reused while cached
    return r


def _val_of(model, term):
    v = model.eval(term, model_completion=True)
    if z3.is_int_value(v):
        return v.as_long()
    if z3.is_rational_value(v):
        return Fraction(v.numerator_as_long(), v.denominator_as_long())
    if z3.is_algebraic_value(v):
        a = v.approx(30)
        return Fraction(a.numerator_as_long(), a.denominator_as_long())
    if z3.is_true(v):
        return True
    if z3.is_false(v):
        return False
    raise HarnessError("cannot read model value %s" % v)


def _plain(v):
    """model value -> JSON friendly python value"""
    if isinstance(v, Fraction):
        return int(v) if v.denominator == 1 else float(v)
    return v


# --------------------------------------------------------------------------------------------
# proxies
# --------------------------------------------------------------------------------------------
class SymBool:
    __slots__ = ("t",)

    def __init__(self, t):
        self.t = t

    def __bool__(self):
        return cur().branch(self.t)

    def __and__(self, o):
        return SymBool(z3.And(self.t, _bt(o)))
    __rand__ = __and__

    def __or__(self, o):
        return SymBool(z3.Or(self.t, _bt(o)))
    __ror__ = __or__

    def __invert__(self):
        return SymBool(z3.Not(self.t))

    def __eq__(self, o):
        return SymBool(self.t == _bt(o))

    def __ne__(self, o):
        return SymBool(self.t != _bt(o))

    def __hash__(self):
        return hash(bool(self))

    def __repr__(self):
        return "SymBool(%s)" % self.t


def _bt(x):
    if isinstance(x, SymBool):
        return x.t
    if isinstance(x, (bool,)) or type(x).__name__ == "bool_":
        return z3.BoolVal(bool(x))
    raise TypeError("not a boolean: %r" % (x,))


def sym_not(a):
    return ~a if isinstance(a, SymBool) else (not a)


def sym_and(*xs):
    if any(isinstance(x, SymBool) for x in xs):
        if any((not isinstance(x, SymBool)) and not x for x in xs):
            return False
        ts = [x.t for x in xs if isinstance(x, SymBool)]
        return SymBool(z3.And(*ts)) if len(ts) > 1 else SymBool(ts[0])
    return all(xs)


def sym_or(*xs):
    if any(isinstance(x, SymBool) for x in xs):
        if any((not isinstance(x, SymBool)) and x for x in xs):
            return True
        ts = [x.t for x in xs if isinstance(x, SymBool)]
        return SymBool(z3.Or(*ts)) if len(ts) > 1 else SymBool(ts[0])
    return any(xs)


def sym_implies(a, b):
    return sym_or(sym_not(a), b)


def ite(c, a, b):
    """if-then-else without forking when `c` is symbolic"""
    if not isinstance(c, SymBool):
        return a if c else b
    if isinstance(a, SymBool) or isinstance(b, SymBool):
        return SymBool(z3.If(c.t, _bt(a), _bt(b)))
    if isinstance(a, SymReal) or isinstance(b, SymReal) or isinstance(a, float) or isinstance(b, float):
        return SymReal(z3.If(c.t, _rt(a), _rt(b)))
    return SymInt(z3.If(c.t, _it(a), _it(b)))


def _is_intlike(x):
    if isinstance(x, bool):
        return False
    if isinstance(x, int):
        return True
    tn = type(x).__module__
    return tn == "numpy" and "int" in type(x).__name__


def _is_reallike(x):
    if isinstance(x, (float, Fraction)):
        return True
    return type(x).__module__ == "numpy" and "float" in type(x).__name__


def _it(x):
    if isinstance(x, SymInt):
        return x.t
    if _is_intlike(x):
        return z3.IntVal(int(x))
    if isinstance(x, bool):
        return z3.IntVal(int(x))
    raise TypeError("not an integer: %r" % (x,))


def _rt(x):
    if isinstance(x, SymReal):
        return x.t
    if isinstance(x, SymInt):
        return z3.ToReal(x.t)
    if _is_intlike(x) or _is_reallike(x) or isinstance(x, bool):
        return _rv(x)
    raise TypeError("not a real: %r" % (x,))


class SymInt:
    __slots__ = ("t",)

    def __init__(self, t):
        self.t = t

    # -- concretisation ------------------------------------------------------------------
    def __index__(self):
        return cur().concretize(self.t)

    __int__ = __index__

    def __hash__(self):
        return hash(cur().concretize(self.t))

    def __bool__(self):
        return cur().branch(self.t != 0)

    def __float__(self):
        return float(cur().concretize(self.t))

    def __repr__(self):
        return "SymInt(%s)" % self.t

    def __str__(self):
        # rendering (log and error messages) must not fork: a value that is meant to become input text is concretised
        # explicitly by the harness with int()
        t = z3.simplify(self.t)
        return str(t.as_long()) if z3.is_int_value(t) else "<%s>" % t

    def __format__(self, spec):
        t = z3.simplify(self.t)
        return format(t.as_long(), spec) if z3.is_int_value(t) else "<%s>" % t

    # -- arithmetic ----------------------------------------------------------------------
    def _bin(self, o, f, rev=False):
        if isinstance(o, SymReal) or _is_reallike(o):
            a, b = z3.ToReal(self.t), _rt(o)
            return SymReal(f(b, a) if rev else f(a, b))
        if isinstance(o, SymInt) or _is_intlike(o) or isinstance(o, bool):
            a, b = self.t, _it(o)
            return SymInt(f(b, a) if rev else f(a, b))
        return NotImplemented

    def __add__(self, o):
        return self._bin(o, lambda a, b: a + b)

    def __radd__(self, o):
        return self._bin(o, lambda a, b: a + b, True)

    def __sub__(self, o):
        return self._bin(o, lambda a, b: a - b)

    def __rsub__(self, o):
        return self._bin(o, lambda a, b: a - b, True)

    def __mul__(self, o):
        return self._bin(o, lambda a, b: a * b)

    def __rmul__(self, o):
        return self._bin(o, lambda a, b: a * b, True)

    def __neg__(self):
        return SymInt(-self.t)

    def __pos__(self):
        return self

    def __abs__(self):
        return SymInt(z3.If(self.t >= 0, self.t, -self.t))

    def __floordiv__(self, o):
        # python floor division; z3 div is euclidean, equal to floor for positive divisor
        if _is_intlike(o) and int(o) > 0:
            return SymInt(self.t / z3.IntVal(int(o)))
        raise HarnessError("SymInt // non-positive-constant is not modelled")

    def __mod__(self, o):
        if _is_intlike(o) and int(o) > 0:
            return SymInt(self.t % z3.IntVal(int(o)))
        raise HarnessError("SymInt % non-positive-constant is not modelled")

    def __truediv__(self, o):
        return SymReal(z3.ToReal(self.t)) / o

    def __rtruediv__(self, o):
        return o / SymReal(z3.ToReal(self.t))

    # -- comparisons ---------------------------------------------------------------------
    def _cmp(self, o, f):
        if isinstance(o, SymReal) or _is_reallike(o):
            return SymBool(f(z3.ToReal(self.t), _rt(o)))
        if isinstance(o, SymInt) or _is_intlike(o) or isinstance(o, bool):
            return SymBool(f(self.t, _it(o)))
        return NotImplemented

    def __eq__(self, o):
        r = self._cmp(o, lambda a, b: a == b)
        return False if r is NotImplemented else r

    def __ne__(self, o):
        r = self._cmp(o, lambda a, b: a != b)
        return True if r is NotImplemented else r

    def __lt__(self, o):
        return self._cmp(o, lambda a, b: a < b)

    def __le__(self, o):
        return self._cmp(o, lambda a, b: a <= b)

    def __gt__(self, o):
        return self._cmp(o, lambda a, b: a > b)

    def __ge__(self, o):
        return self._cmp(o, lambda a, b: a >= b)


class SymReal:
    __slots__ = ("_t",)

    def __init__(self, t):
        self._t = t

    @property
    def t(self):
        return self._t

    def __repr__(self):
        return "SymReal(%s)" % self.t

    def __bool__(self):
        return cur().branch(self.t != 0)

    def __float__(self):
        s = z3.simplify(self.t)
        if z3.is_rational_value(s):
            return s.numerator_as_long() / s.denominator_as_long()
        c = cur()
        if c.float_hook is not None:
            return c.float_hook(self)
        raise HarnessError("float() of a symbolic real (%s): the code hands a symbolic value to C code"
                           % str(s)[:80])

    def __hash__(self):
        raise HarnessError("hash of a symbolic real")

    # -- arithmetic ----------------------------------------------------------------------
    def _bin(self, o, f, rev=False):
        if isinstance(o, (SymReal, SymInt)) or _is_intlike(o) or _is_reallike(o) or isinstance(o, bool):
            a, b = self.t, _rt(o)
            return SymReal(f(b, a) if rev else f(a, b))
        return NotImplemented

    def __add__(self, o):
        return self._bin(o, lambda a, b: a + b)

    def __radd__(self, o):
        return self._bin(o, lambda a, b: a + b, True)

    def __sub__(self, o):
        return self._bin(o, lambda a, b: a - b)

    def __rsub__(self, o):
        return self._bin(o, lambda a, b: a - b, True)

    def __mul__(self, o):
        return self._bin(o, lambda a, b: a * b)

    def __rmul__(self, o):
        return self._bin(o, lambda a, b: a * b, True)

    def __truediv__(self, o):
        if isinstance(o, Root) and not isinstance(self, Root):
            pass
        return self._bin(o, _div)

    def __rtruediv__(self, o):
        return self._bin(o, _div, True)

    def __neg__(self):
        return SymReal(-self.t)

    def __pos__(self):
        return self

    def __abs__(self):
        return SymReal(z3.If(self.t >= 0, self.t, -self.t))

    def __pow__(self, p):
        if isinstance(p, SymInt):
            p = int(p)
        if _is_intlike(p):
            p = int(p)
            if p == 0:
                return SymReal(_rv(1))
            base = self.t
            r = base
            for _ in range(abs(p) - 1):
                r = r * base
            return SymReal(r if p > 0 else _rv(1) / r)
        if _is_reallike(p):
            f = Fraction(float(p)).limit_denominator(64)
            if abs(float(f) - float(p)) > 1e-12:
                raise HarnessError("power with exponent %r not modelled" % (p,))
            if f.denominator == 1:
                return self ** int(f)
            return Root(self, f.denominator) ** f.numerator
        return NotImplemented

    def __mod__(self, o):
        if isinstance(o, (SymReal, SymInt)):
            s = z3.simplify(_rt(o))
            if not z3.is_rational_value(s):
                raise HarnessError("x % symbolic divisor is not modelled")
            o = Fraction(s.numerator_as_long(), s.denominator_as_long())
        L = _fr(o)
        if L <= 0:
            raise HarnessError("x % non-positive constant is not modelled")
        c = cur()
        q = c.fresh_int("modq")
        Lr = _rv(L)
        c.assume_term(z3.And(z3.ToReal(q) * Lr <= self.t, self.t < (z3.ToReal(q) + 1) * Lr))
        qv = c.concretize(q, limit=c.mod_window, linear_only=True)
        return SymReal(self.t - _rv(qv) * Lr)

    def __round__(self, k=None):
        c = cur()
        if k is None:
            n = c.fresh_int("rnd")
            c.assume_term(z3.And(z3.ToReal(n) - _rv(Fraction(1, 2)) <= self.t, self.t <= z3.ToReal(n) + _rv(Fraction(1, 2))))
            return SymInt(n)
        eps = Fraction(1, 2) * Fraction(1, 10 ** int(k))
        r = c.fresh_real("rnd")
        c.assume_term(z3.And(r - self.t <= _rv(eps), self.t - r <= _rv(eps)))
        return SymReal(r)

    def __floor__(self):
        c = cur()
        n = c.fresh_int("flr")
        c.assume_term(z3.And(z3.ToReal(n) <= self.t, self.t < z3.ToReal(n) + 1))
        return SymInt(n)

    def __ceil__(self):
        c = cur()
        n = c.fresh_int("cil")
        c.assume_term(z3.And(z3.ToReal(n) - 1 < self.t, self.t <= z3.ToReal(n)))
        return SymInt(n)

    def __trunc__(self):
        c = cur()
        n = c.fresh_int("trc")
        c.assume_term(z3.Or(z3.And(self.t >= 0, z3.ToReal(n) <= self.t, self.t < z3.ToReal(n) + 1),
                            z3.And(self.t < 0, z3.ToReal(n) - 1 < self.t, self.t <= z3.ToReal(n))))
        return SymInt(n)

    # -- comparisons ---------------------------------------------------------------------
    def _cmp(self, o, op):
        f = _OPS[op]
        if _is_reallike(o) and not isinstance(o, Fraction) and math.isinf(float(o)):
            # a (finite) symbolic real against +-inf
            return bool(f(0.0, float(o)))
        if isinstance(o, Root) and not isinstance(self, Root) and o._var is None:
            return o._cmp(self, _MIRROR[op])
        if isinstance(o, (SymReal, SymInt)) or _is_intlike(o) or _is_reallike(o) or isinstance(o, bool):
            return SymBool(f(self.t, _rt(o)))
        return NotImplemented

    def __eq__(self, o):
        r = self._cmp(o, "eq")
        return False if r is NotImplemented else r

    def __ne__(self, o):
        r = self._cmp(o, "ne")
        return True if r is NotImplemented else r

    def __lt__(self, o):
        return self._cmp(o, "lt")

    def __le__(self, o):
        return self._cmp(o, "le")

    def __gt__(self, o):
        return self._cmp(o, "gt")

    def __ge__(self, o):
        return self._cmp(o, "ge")

    # -- numpy object-dtype ufunc hooks (np.sqrt(obj_array) calls elem.sqrt()) ------------
    def sqrt(self):
        return Root(self, 2)

    def cos(self):
        return cur().trig(self)[0]

    def sin(self):
        return cur().trig(self)[1]

    def arccos(self):
        return cur().unfun("arccos", self, decreasing=True)

    def exp(self):
        return cur().unfun("exp", self, decreasing=False)

    def deg2rad(self):
        return cur().unfun("deg2rad", self, decreasing=False)
    radians = deg2rad

    def degrees(self):
        return cur().unfun("degrees", self, decreasing=False)
    rad2deg = degrees

    def conjugate(self):
        return self

    def isfinite(self):
        return True

    def is_integer(self):
        raise HarnessError("is_integer on symbolic real")


def _div(a, b):
    return a / b


_OPS = {"eq": lambda a, b: a == b, "ne": lambda a, b: a != b, "lt": lambda a, b: a < b, "le": lambda a, b: a <= b,
        "gt": lambda a, b: a > b, "ge": lambda a, b: a >= b}
_MIRROR = {"eq": "eq", "ne": "ne", "lt": "gt", "le": "ge", "gt": "lt", "ge": "le"}


class Root(SymReal):
    """Lazy n-th root (n >= 2) of a radicand that is taken to be non-negative; the value is >= 0."""
    __slots__ = ("rad", "n", "_var")

    def __init__(self, rad, n):
        self.rad = rad if isinstance(rad, SymReal) else SymReal(_rt(rad))
        self.n = n
        self._var = None
        self._t = None

    @property
    def t(self):
        if self._var is None:
            self._var = cur().root_var(self.rad.t, self.n)
        return self._var

    def __repr__(self):
        return "Root(%s, %d)" % (self.rad.t, self.n)

    def __pow__(self, p):
        if isinstance(p, SymInt):
            p = int(p)
        if _is_intlike(p):
            p = int(p)
            if p == 1:
                return self
            if p % self.n == 0:
                return SymReal(self.rad.t) ** (p // self.n)
            if p > 0 and self._var is None:
                q, r = divmod(p, self.n)
                if q:
                    return (SymReal(self.rad.t) ** q) * SymReal(self.t) ** r
        if _is_reallike(p):
            f = Fraction(float(p)).limit_denominator(64)
            if f.denominator == 1:
                return self ** int(f)
        return SymReal.__pow__(SymReal(self.t), p)

    def __mul__(self, o):
        if isinstance(o, Root) and o.n == self.n and self._var is None and o._var is None:
            return Root(self.rad * o.rad, self.n)
        return SymReal.__mul__(self, o)

    def _cmp(self, o, op):
        f = _OPS[op]
        if _is_reallike(o) and not isinstance(o, Fraction) and math.isinf(float(o)):
            return bool(f(0.0, float(o)))
        if isinstance(o, Root) and o.n == self.n and self._var is None and o._var is None:
            return SymBool(f(self.rad.t, o.rad.t))
        if self._var is None and self.n % 2 == 0 and (isinstance(o, (SymReal, SymInt)) or _is_intlike(o) or _is_reallike(o)):
            # compare the (non-negative) root with an arbitrary real without introducing the root:
            #   root > o  <=>  o < 0 or rad > o^n     root < o  <=>  o > 0 and rad < o^n   etc.
            ot = _rt(o) if not isinstance(o, Root) else o.t
            on = ot
            for _ in range(self.n - 1):
                on = on * ot
            r = self.rad.t
            t = {"gt": z3.Or(ot < 0, r > on), "ge": z3.Or(ot <= 0, r >= on), "lt": z3.And(ot > 0, r < on),
                 "le": z3.And(ot >= 0, r <= on), "eq": z3.And(ot >= 0, r == on), "ne": z3.Or(ot < 0, r != on)}[op]
            return SymBool(t)
        return SymReal._cmp(self, o, op)


# --------------------------------------------------------------------------------------------
# the path context
# --------------------------------------------------------------------------------------------
class Ctx:
    """State of one explored path (symbolic mode) or of one concrete replay."""

    def __init__(self, prefix=(), concrete_inputs=None, cfg=None):
        cfg = cfg or {}
        self.concrete = concrete_inputs is not None
        self.cinputs = concrete_inputs or {}
        self.prefix = list(prefix)
        self.pos = 0
        self.decisions = []
        self.pending = []
        self.pc = []
        self.nl = False
        self.solver = None if self.concrete else z3.Solver()
        self.timeout_ms = cfg.get("timeout_ms", 20000)
        if self.solver is not None:
            self.solver.set("timeout", self.timeout_ms)
        self.fork_limit = cfg.get("fork_limit", 64)
        self.mod_window = cfg.get("mod_window", 9)
        self.tol = cfg.get("tol", 1e-9)
        self.inputs = {}          # name -> ('int'|'real'|'bool', z3 var) | ('sel', python index)
        self.order = []
        self.counter = itertools.count()
        self.roots = []           # (n, radicand term, var)
        self.trigs = {}
        self.unfuns = {}
        self.float_hook = None
        self.known = cfg.get("known", [])       # known-finding entries for this condition
        self.cond_id = cfg.get("cond_id", "?")
        # results
        self.obligations = 0
        self.discharged = 0
        self.inconclusive = []    # labels
        self.violations = []      # dicts
        self.known_hits = []      # (finding id, label)
        self.queries = 0
        self.solver_s = 0.0
        self.branches = 0
        self.forks = 0
        self.assumptions = []
        self.observed = {}        # label -> python values the harness wants to expose (samples)
        self.unknown_branch = 0
        self.tags = {}
        self._varcache = {}
        self.query_log = cfg.get("query_log")   # list to collect smt2 of obligations (thorough)

    # ---- input construction --------------------------------------------------------------
    def _reg(self, name, kind, var):
        if name in self.inputs:
            raise HarnessError("duplicate input name %s" % name)
        self.inputs[name] = (kind, var)
        self.order.append(name)

    def int(self, name, lo, hi):
        if self.concrete:
            # an input that is created after the violated claim is not part of the model: any admissible value will do
            v = int(self.cinputs[name]) if name in self.cinputs else int(lo)
            if not lo <= v <= hi:
                raise HarnessError("replay input %s=%s outside [%s,%s]" % (name, v, lo, hi))
            return v
        v = z3.Int(name)
        self._reg(name, "int", v)
        self.assume_term(z3.And(v >= lo, v <= hi), quiet=True)
        return SymInt(v)

    def real(self, name, lo=None, hi=None, lo_strict=False, hi_strict=False):
        if self.concrete:
            if name not in self.cinputs:
                base = 0.0 if lo is None and hi is None else (float(lo) if lo is not None else float(hi) - 1.0)
                if lo is not None and lo_strict:
                    base = float(lo) + (min(1.0, (float(hi) - float(lo)) / 2.0) if hi is not None else 1.0)
                return base
            return float(self.cinputs[name])
        v = z3.Real(name)
        self._reg(name, "real", v)
        cs = []
        if lo is not None:
            cs.append(v > _rv(lo) if lo_strict else v >= _rv(lo))
        if hi is not None:
            cs.append(v < _rv(hi) if hi_strict else v <= _rv(hi))
        if cs:
            self.assume_term(z3.And(*cs), quiet=True)
        return SymReal(v)

    def bool(self, name):
        if self.concrete:
            return bool(self.cinputs.get(name, False))
        v = z3.Bool(name)
        self._reg(name, "bool", v)
        return SymBool(v)

    def sel(self, name, options):
        """finite selector: a solver integer in range(len(options)), concretised by forking"""
        options = list(options)
        if not options:
            raise PathAbort()
        if self.concrete:
            return options[int(self.cinputs.get(name, 0))]
        v = z3.Int(name)
        self._reg(name, "int", v)
        self.assume_term(z3.And(v >= 0, v < len(options)), quiet=True)
        i = self.concretize(v, limit=max(self.fork_limit, len(options)), full_range=(0, len(options) - 1))
        return options[i]

    def fresh_int(self, stem):
        return z3.Int("%s!%d" % (stem, next(self.counter)))

    def fresh_real(self, stem):
        return z3.Real("%s!%d" % (stem, next(self.counter)))

    # ---- solver plumbing ---------------------------------------------------------------
    def _add(self, t):
        self.pc.append(t)
        if not self.nl and _is_nonlinear(t):
            self.nl = True
        if not self.nl:
            self.solver.add(t)

    def _check(self, extra, want_model=False):
        """satisfiability of pc AND extra -> ('sat'|'unsat'|'unknown', model|None)"""
        t0 = time.perf_counter()
        self.queries += 1
        if self.nl or _is_nonlinear(extra):
            # fresh non-incremental solver (nlsat portfolio), on the cone of influence of the query only: assertions that
            # share no variable (transitively) with the query cannot affect its satisfiability as long as the path
            # condition itself is satisfiable
            sub = self._slice(extra)
            s = z3.Solver()
            s.set("timeout", self.timeout_ms)
            s.add(*sub)
            s.add(extra)
            r = s.check()
            m = None
            if r == z3.sat and want_model:
                if len(sub) == len(self.pc):
                    m = s.model()
                else:
                    s2 = z3.Solver()
                    s2.set("timeout", self.timeout_ms)
                    s2.add(*self.pc)
                    s2.add(extra)
                    r = s2.check()
                    m = s2.model() if r == z3.sat else None
        else:
            s = self.solver
            s.push()
            s.add(extra)
            r = s.check()
            m = s.model() if (r == z3.sat and want_model) else None
            s.pop()
        self.solver_s += time.perf_counter() - t0
        return str(r), m

    def _vars_of(self, t):
        key = t.get_id()
        c = self._varcache.get(key)
        if c is not None:
            return c[0]
        out = set()
        stack = [t]
        seen = set()
        while stack:
            e = stack.pop()
            i = e.get_id()
            if i in seen:
                continue
            seen.add(i)
            if z3.is_const(e) and e.decl().kind() == z3.Z3_OP_UNINTERPRETED:
                out.add(i)
            else:
                stack.extend(e.children())
        self._varcache[key] = (out, t)
        return out

    def _slice(self, extra):
        want = set(self._vars_of(extra))
        if not want:
            return list(self.pc)
        remaining = [(a, self._vars_of(a)) for a in self.pc]
        chosen = []
        changed = True
        while changed:
            changed = False
            rest = []
            for a, vs in remaining:
                if not vs or (vs & want):
                    chosen.append(a)
                    if vs - want:
                        want |= vs
                        changed = True
                else:
                    rest.append((a, vs))
            remaining = rest
        return chosen

    def assume_term(self, t, quiet=False):
        if not quiet:
            pass
        self._add(t)

    def assume(self, cond, note=None):
        """restrict the path to `cond`; the path ends silently if that is infeasible"""
        if note and note not in self.assumptions:
            self.assumptions.append(note)
        if isinstance(cond, SymBool):
            if self.concrete:
                raise HarnessError("symbolic value in concrete mode")
            t = z3.simplify(cond.t)
            if z3.is_true(t):
                return
            if z3.is_false(t):
                raise PathAbort()
            r, _ = self._check(t)
            if r == "unsat":
                raise PathAbort()
            self._add(t)
        elif not cond:
            raise PathAbort()

    def branch(self, t):
        t = z3.simplify(t)
        if z3.is_true(t):
            return True
        if z3.is_false(t):
            return False
        self.branches += 1
        if self.pos < len(self.prefix):
            d = self.prefix[self.pos]
            self.pos += 1
            if not isinstance(d, bool):
                raise HarnessError("non-deterministic harness: expected value decision, got branch")
            self._add(t if d else z3.Not(t))
            self.decisions.append(d)
            return d
        rt, _ = self._check(t)
        if rt == "unsat":
            d, both = False, False
        else:
            if rt == "unknown":
                self.unknown_branch += 1
            rf, _ = self._check(z3.Not(t))
            if rf == "unknown":
                self.unknown_branch += 1
            d, both = True, rf != "unsat"
        self.pos += 1
        if both:
            self.forks += 1
            self.pending.append(self.decisions + [False])
        self.decisions.append(d)
        self._add(t if d else z3.Not(t))
        return d

    def concretize(self, t, limit=None, full_range=None, linear_only=False):
        """all feasible integer values of `t` are enumerated through the solver; fork over them"""
        t = z3.simplify(t)
        if z3.is_int_value(t):
            return t.as_long()
        limit = limit or self.fork_limit
        if self.pos < len(self.prefix):
            d = self.prefix[self.pos]
            self.pos += 1
            if isinstance(d, bool) or not isinstance(d, tuple):
                raise HarnessError("non-deterministic harness: expected branch decision, got value")
            v = d[1]
            self._add(t == v)
            self.decisions.append(d)
            return v
        vals = []
        if full_range is not None and not self.pc_mentions(t):
            vals = list(range(full_range[0], full_range[1] + 1))
            self.queries += 0
        else:
            excl = []
            lin = None
            if linear_only and (self.nl or _is_nonlinear(t)):
                # enumerate against a linear abstraction of the path condition: every non-linear product is replaced by
                # a fresh variable (a superset of the feasible values: an infeasible choice only yields a path whose
                # obligations hold vacuously)
                lin = z3.Solver()
                lin.set("timeout", self.timeout_ms)
                lin.add(*[self._abstract(a) for a in self.pc])
                t = self._abstract(t)
            while True:
                if lin is not None:
                    t0 = time.perf_counter()
                    self.queries += 1
                    rr = lin.check(*excl)
                    r, m = str(rr), (lin.model() if rr == z3.sat else None)
                    self.solver_s += time.perf_counter() - t0
                else:
                    r, m = self._check(z3.And(*excl) if excl else z3.BoolVal(True), want_model=True)
                if r == "unsat":
                    break
                if r == "unknown":
                    raise HarnessError("solver returned unknown while enumerating values of %s" % t)
                v = _val_of(m, t)
                if not isinstance(v, int):
                    raise HarnessError("non-integer value during concretisation")
                vals.append(v)
                excl.append(t != v)
                if len(vals) > limit:
                    raise HarnessError("more than %d feasible values for %s: unbounded fork" % (limit, t))
        if not vals:
            raise PathAbort()
        vals.sort()
        self.pos += 1
        for v in vals[1:]:
            self.forks += 1
            self.pending.append(self.decisions + [("v", v)])
        self.decisions.append(("v", vals[0]))
        self._add(t == vals[0])
        return vals[0]

    def _abstract(self, term):
        """replace maximal non-linear sub-terms (products of non-constants, divisions by non-constants, powers) by fresh reals"""
        if not _is_nonlinear(term):
            return term
        if not hasattr(self, "_abs_map"):
            self._abs_map = {}
        pairs = []
        stack = [term]
        seen = set()
        while stack:
            e = stack.pop()
            i = e.get_id()
            if i in seen or not z3.is_app(e):
                continue
            seen.add(i)
            k = e.decl().kind()
            ch = e.children()
            nl_here = False
            if k == z3.Z3_OP_MUL:
                nl_here = len([c for c in ch if not (z3.is_rational_value(c) or z3.is_int_value(c))]) >= 2
            elif k in (z3.Z3_OP_DIV, z3.Z3_OP_IDIV, z3.Z3_OP_MOD, z3.Z3_OP_REM):
                nl_here = not (z3.is_rational_value(ch[1]) or z3.is_int_value(ch[1]))
            elif k == z3.Z3_OP_POWER:
                nl_here = True
            if nl_here:
                key = ("*" + "|".join(sorted(c.sexpr() for c in ch))) if k == z3.Z3_OP_MUL else e.sexpr()
                if key not in self._abs_map:
                    self._abs_map[key] = (e, z3.Real("abs!%d" % len(self._abs_map)) if e.sort() == z3.RealSort()
                                          else z3.Int("abs!%d" % len(self._abs_map)))
                pairs.append((e, self._abs_map[key][1]))
            else:
                stack.extend(ch)
        return z3.substitute(term, *pairs) if pairs else term

    def lemma(self, cond, label):
        """prove `cond` under the path condition (an obligation), then add it to the path condition as a known fact"""
        ok = self.claim(cond, label)
        if ok and isinstance(cond, SymBool):
            self._add(z3.simplify(cond.t))
        return ok

    def pc_mentions(self, var):
        """True if `var` (a fresh selector) is constrained by anything but its own range assertion"""
        if not z3.is_const(var):
            return True
        vid = var.get_id()
        n = 0
        for a in self.pc:
            if _mentions(a, vid):
                n += 1
                if n > 1:
                    return True
        return False

    # ---- real-number helpers -------------------------------------------------------------
    def root_var(self, rad, n):
        rad_s = z3.simplify(rad)
        for (m, r, v) in self.roots:
            if m == n and r.eq(rad_s):
                return v
        for (m, r, v) in self.roots:
            if m == n:
                res, _ = self._check(r != rad_s)
                if res == "unsat":
                    self.roots.append((n, rad_s, v))
                    return v
        v = self.fresh_real("root%d" % n)
        p = v
        for _ in range(n - 1):
            p = p * v
        self._add(z3.And(v >= 0, p == rad_s))
        self.roots.append((n, rad_s, v))
        note = "n-th roots are taken of non-negative radicands only"
        if note not in self.assumptions:
            self.assumptions.append(note)
        return v

    def trig(self, x):
        key = z3.simplify(x.t).sexpr()
        if key not in self.trigs:
            c = self.fresh_real("cos")
            s = self.fresh_real("sin")
            self._add(c * c + s * s == 1)
            self.trigs[key] = (SymReal(c), SymReal(s))
            note = "cos/sin of a term are an arbitrary pair (c,s) with c^2+s^2=1"
            if note not in self.assumptions:
                self.assumptions.append(note)
        return self.trigs[key]

    def unfun(self, name, x, decreasing=False):
        """uninterpreted strictly monotone function"""
        fams = self.unfuns.setdefault(name, [])
        xs = z3.simplify(x.t)
        for (a, v) in fams:
            if a.eq(xs):
                return SymReal(v)
        v = self.fresh_real(name)
        for (a, w) in fams:
            if decreasing:
                self._add(z3.And(z3.Implies(a < xs, w > v), z3.Implies(a > xs, w < v), z3.Implies(a == xs, w == v)))
            else:
                self._add(z3.And(z3.Implies(a < xs, w < v), z3.Implies(a > xs, w > v), z3.Implies(a == xs, w == v)))
        fams.append((xs, v))
        note = "%s is an uninterpreted strictly monotone function" % name
        if note not in self.assumptions:
            self.assumptions.append(note)
        return SymReal(v)

    # ---- obligations ---------------------------------------------------------------------
    def model_inputs(self, model):
        out = {}
        for name in self.order:
            kind, var = self.inputs[name]
            out[name] = _plain(_val_of(model, var))
        # an input angle enters the path condition only through its abstract (cos, sin) pair: the concrete angle that goes with the
        # model is the one whose cosine and sine are the model's pair
        for key, (c, s_) in self.trigs.items():
            if key in self.inputs:
                try:
                    out[key] = math.atan2(float(_plain(_val_of(model, s_.t))), float(_plain(_val_of(model, c.t))))
                except Exception:
                    pass
        return out

    def _region_match(self, label, model_inputs):
        """known findings whose label pattern fits and whose region holds for these inputs"""
        import fnmatch
        hits = []
        for kf in self.known:
            if kf.get("status", "open") != "open":
                continue
            if not any(fnmatch.fnmatch(label, p) for p in kf.get("labels", ["*"])):
                continue
            env = dict(model_inputs)
            env.update(self.tags)
            try:
                ok = bool(eval(kf["region"], {"__builtins__": {}}, env))
            except Exception as e:  # region mentions an input this path does not have
                ok = False
            if ok:
                hits.append(kf)
        return hits

    def _region_sym(self, kf):
        env = {}
        for name in self.order:
            kind, var = self.inputs[name]
            env[name] = {"int": SymInt, "real": SymReal, "bool": SymBool}[kind](var)
        env.update(self.tags)
        r = eval(kf["region"], {"__builtins__": {}}, env)
        if isinstance(r, SymBool):
            return r.t
        return z3.BoolVal(bool(r))

    def claim(self, cond, label, detail=None):
        """property clause: must hold for every value of the symbolic inputs on this path"""
        self.obligations += 1
        if not isinstance(cond, SymBool):
            ok = bool(cond)
            if ok:
                self.discharged += 1
                return True
            if self.concrete:
                raise ClaimFailed(label, detail() if callable(detail) else (detail or ""))
            # concrete fact false on this path: any model of the path condition is a counterexample
            return self._fail(z3.BoolVal(False), label, detail)
        if self.concrete:
            raise HarnessError("symbolic claim in concrete mode")
        t = z3.simplify(cond.t)
        if z3.is_true(t):
            self.discharged += 1
            return True
        return self._fail(t, label, detail)

    def eq(self, a, b):
        """equality that is exact on symbolic reals and tolerant (relative 1e-9) on floats in concrete replay"""
        if is_sym(a) or is_sym(b):
            return a == b
        if isinstance(a, (float, Fraction)) or isinstance(b, (float, Fraction)) or _is_reallike(a) or _is_reallike(b):
            return abs(a - b) <= self.tol * max(1.0, abs(a), abs(b))
        return a == b

    def le(self, a, b):
        if is_sym(a) or is_sym(b):
            return a <= b
        return a <= b + self.tol * max(1.0, abs(a), abs(b))

    def trig_pair(self, x):
        """(cos x, sin x): the abstract pair in symbolic mode, the real values in concrete mode"""
        if is_sym(x):
            return self.trig(x)
        return math.cos(x), math.sin(x)

    def claim_eq(self, a, b, label, detail=None):
        if self.concrete or not (is_sym(a) or is_sym(b)):
            if isinstance(a, float) or isinstance(b, float):
                ok = abs(a - b) <= self.tol * max(1.0, abs(a), abs(b))
            else:
                ok = (a == b)
            return self.claim(ok, label, detail or (lambda: "%r != %r" % (a, b)))
        return self.claim(a == b, label, detail)

    def claim_le(self, a, b, label, detail=None):
        if self.concrete or not (is_sym(a) or is_sym(b)):
            ok = a <= b + self.tol * max(1.0, abs(a), abs(b))
            return self.claim(ok, label, detail or (lambda: "%r > %r" % (a, b)))
        return self.claim(a <= b, label, detail)

    def _fail(self, t, label, detail):
        """t is the (non-trivially true) claim term; decide pc AND NOT t, handling known findings"""
        extra = []
        while True:
            neg = z3.And(z3.Not(t), *extra) if extra else z3.Not(t)
            r, m = self._check(neg, want_model=True)
            if r == "unsat":
                if self.query_log is not None and len(self.query_log) < 4:
                    self._log_query(neg, label)
                self.discharged += 1
                return True
            if r == "unknown":
                self.inconclusive.append(label)
                return False
            mi = self.model_inputs(m)
            hits = self._region_match(label, mi)
            if hits:
                kf = hits[0]
                self.known_hits.append((kf["id"], label))
                extra.append(z3.Not(self._region_sym(kf)))
                continue
            self.violations.append({"label": label, "inputs": mi,
                                    "detail": (detail() if callable(detail) else detail) or "",
                                    "decisions": _dec_json(self.decisions)})
            return False

    def crash(self, exc, where=""):
        """an unexpected exception escaped the code under test on this path"""
        label = "crash:%s" % type(exc).__name__
        self.obligations += 1
        msg = "%s: %s %s" % (type(exc).__name__, str(exc)[:300], where)
        return self._fail(z3.BoolVal(False), label, msg)

    def _log_query(self, neg, label):
        s = z3.Solver()
        s.add(*(self._slice(neg) if (self.nl or _is_nonlinear(neg)) else self.pc))
        s.add(neg)
        self.query_log.append((label, s.to_smt2()))

    def witness_model(self):
        """inputs of some model of the path condition (for samples and path replay)"""
        r, m = self._check(z3.BoolVal(True), want_model=True)
        if r != "sat":
            return None
        return self.model_inputs(m)

    def observe(self, key, value):
        self.observed[key] = value

    def tag(self, name, value):
        """a concrete, derived fact about this path's input that known-finding regions may refer to"""
        self.tags[name] = value

    def cover(self, label):
        """mark a point of the harness as reached on this path (reachability witness)"""
        self.observed.setdefault("cover", []).append(label)


def _mentions(term, vid):
    stack = [term]
    seen = set()
    while stack:
        e = stack.pop()
        i = e.get_id()
        if i == vid:
            return True
        if i in seen:
            continue
        seen.add(i)
        stack.extend(e.children())
    return False


def _dec_json(ds):
    return [d if isinstance(d, bool) else ["v", d[1]] for d in ds]


def dec_from_json(ds):
    return [d if isinstance(d, bool) else ("v", d[1]) for d in ds]


def run_path(fn, B, prefix=(), cfg=None, concrete_inputs=None, rejects=(), crash_ok=()):
    """Run harness `fn(sx, B)` once. Returns the context; ctx.status in
    {'done','aborted','rejected','violated'}"""
    global _CUR
    ctx = Ctx(prefix=prefix, concrete_inputs=concrete_inputs, cfg=cfg)
    prev = _CUR
    _CUR = ctx
    ctx.status = "done"
    ctx.error = None
    try:
        fn(ctx, B)
    except PathAbort:
        ctx.status = "aborted"
    except Rejected as e:
        ctx.status = "rejected"
    except ClaimFailed as e:
        ctx.status = "violated"
        ctx.violations.append({"label": e.label, "detail": e.detail, "inputs": dict(ctx.cinputs)})
    except HarnessError:
        raise
    except RecursionError:
        raise
    except Exception as e:  # noqa - escaped the harness: a crash of the code under test
        if rejects and isinstance(e, tuple(rejects)):
            ctx.status = "rejected"
            ctx.error = "%s: %s" % (type(e).__name__, str(e)[:200])
        else:
            import traceback
            tb = traceback.extract_tb(e.__traceback__)
            where = ""
            for fr in reversed(tb):
                if "/repo/" in fr.filename or "vermouth" in fr.filename:
                    where = "at %s:%d" % (fr.filename.split("/repo/")[-1], fr.lineno)
                    break
            if not where and tb:
                where = "at %s:%d (harness)" % (tb[-1].filename, tb[-1].lineno)
            if "(harness)" in where or where == "":
                _CUR = prev
                raise HarnessError("exception inside the harness itself: %s: %s %s"
                                   % (type(e).__name__, e, where)) from e
            if ctx.concrete:
                ctx.status = "violated"
                ctx.violations.append({"label": "crash:%s" % type(e).__name__,
                                       "detail": "%s: %s %s" % (type(e).__name__, str(e)[:300], where),
                                       "inputs": dict(ctx.cinputs)})
            else:
                ctx.crash(e, where)
                ctx.status = "crashed"
    finally:
        _CUR = prev
    return ctx
