"""Driver:  python -m pverif.run <PROPERTY> --tier quick|thorough  (see DESIGN.md section 2)."""
import argparse
import collections
import json
import multiprocessing as mp
import signal
import os
import sys
import time
import traceback

ROOT = os.path.dirname(os.path.dirname(os.path.abspath(__file__)))
if ROOT not in sys.path:
    sys.path.insert(0, ROOT)

from pverif import symx  # noqa: E402
from pverif.harness import load, REGISTRY  # noqa: E402

EXIT_OK, EXIT_VIOLATION, EXIT_HARNESS = 0, 1, 2
TOOL_ID = 3


# ----------------------------------------------------------------------------------------------
# measured function coverage (sys.monitoring, one event per code object)
# ----------------------------------------------------------------------------------------------
_SEEN_FUNCS = set()


def _on_start(code, offset):
    fn = code.co_filename
    if "/repo/polyply/" in fn:
        _SEEN_FUNCS.add("%s:%s" % (fn.split("/repo/")[1][:-3].replace("/", "."), code.co_qualname))
    return sys.monitoring.DISABLE


def _monitor_on():
    m = sys.monitoring
    try:
        m.use_tool_id(TOOL_ID, "pverif")
    except ValueError:
        pass
    m.register_callback(TOOL_ID, m.events.PY_START, _on_start)
    m.set_events(TOOL_ID, m.events.PY_START)
    m.restart_events()


# ----------------------------------------------------------------------------------------------
# worker side
# ----------------------------------------------------------------------------------------------
_W = {}


def _known_for(cond_id):
    path = os.path.join(ROOT, "known_findings.json")
    if not os.path.exists(path):
        return []
    data = json.load(open(path))
    return [f for f in data.get("findings", []) if f.get("condition") == cond_id]


def _worker_init(prop, tier, seed):
    sys.setrecursionlimit(10000)
    _W["prop"] = prop
    _W["tier"] = tier
    _W["seed"] = seed
    load(prop)
    _silence_progress_bars()
    _monitor_on()


class PathTimeout(BaseException):
    pass


def _alarm(signum, frame):
    import traceback as tb
    _W["hang_tb"] = "".join(tb.format_stack(frame)[-6:])
    raise PathTimeout()


def _silence_progress_bars():
    """progress bars of the code under test are not part of any property; they are silenced once per process"""
    try:
        import polyply.src.processor as _proc
        _proc.tqdm = lambda it, *a, **k: it
    except Exception:  # noqa
        pass


def _explore_slice(task):
    """explore depth-first from the given prefixes for about `slice_s` seconds"""
    cond_id, prefixes, slice_s, want_replay, log_queries = task
    cond = REGISTRY[cond_id]
    B = cond.bounds[_W["tier"]]
    t_end = time.time() + slice_s
    stack = [symx.dec_from_json(p) for p in prefixes]
    res = dict(paths=0, aborted=0, rejected=0, obligations=0, discharged=0, queries=0, solver_s=0.0,
               branches=0, forks=0, inconclusive=[], violations=[], known_hits=[], samples=[],
               replayed=0, replay_fail=[], covers=collections.Counter(), assumptions=[], unknown_branch=0,
               witness_unknown=0, errors=[], rejected_msgs=collections.Counter(), smt2=[],
               leftover=[], maxdepth=0)
    _SEEN_FUNCS.clear()
    sys.monitoring.restart_events()
    cfg = dict(cond.cfg)
    cfg["known"] = _known_for(cond_id)
    cfg["cond_id"] = cond_id
    npath = 0
    while stack:
        if time.time() > t_end and npath > 0:
            break
        prefix = stack.pop()
        qlog = [] if log_queries else None
        cfg["query_log"] = qlog
        signal.signal(signal.SIGALRM, _alarm)
        signal.alarm(int(cond.cfg.get("path_timeout_s", 120)))
        try:
            ctx = symx.run_path(cond.fn, B, prefix=prefix, cfg=cfg, rejects=cond.rejects)
            signal.alarm(0)
        except PathTimeout:
            res["errors"].append("path did not terminate within %ss on prefix %s; stack: %s"
                                 % (cond.cfg.get("path_timeout_s", 120), symx._dec_json(prefix), _W.get("hang_tb", "")[-900:]))
            continue
        except symx.HarnessError as e:
            signal.alarm(0)
            res["errors"].append("HarnessError on prefix %s: %s" % (symx._dec_json(prefix)[:12], str(e)[:400]))
            continue
        except RecursionError as e:
            res["errors"].append("RecursionError on prefix %s" % (symx._dec_json(prefix)[:12],))
            continue
        npath += 1
        stack.extend(ctx.pending)
        res["queries"] += ctx.queries
        res["solver_s"] += ctx.solver_s
        res["branches"] += ctx.branches
        res["forks"] += ctx.forks
        res["unknown_branch"] += ctx.unknown_branch
        res["maxdepth"] = max(res["maxdepth"], len(ctx.decisions))
        if ctx.status == "aborted":
            res["aborted"] += 1
            continue
        res["paths"] += 1
        if ctx.status == "rejected":
            res["rejected"] += 1
            res["rejected_msgs"][(ctx.error or "rejected")[:80]] += 1
        res["obligations"] += ctx.obligations
        res["discharged"] += ctx.discharged
        res["inconclusive"].extend(ctx.inconclusive)
        res["known_hits"].extend(ctx.known_hits)
        for v in ctx.violations:
            v["cond"] = cond_id
            res["violations"].append(v)
        for a in ctx.assumptions:
            if a not in res["assumptions"]:
                res["assumptions"].append(a)
        for k in ctx.observed.get("cover", []):
            res["covers"][k] += 1
        if qlog:
            res["smt2"].extend(qlog[:4])
        # reachability witness + sample + concrete path replay
        clean = not ctx.violations and not ctx.known_hits and ctx.status in ("done", "rejected")
        need_model = (len(res["samples"]) < 3) or (want_replay and cond.replay and clean)
        if need_model:
            wi = ctx.witness_model()
            if wi is None:
                res["witness_unknown"] += 1
            else:
                if len(res["samples"]) < 3:
                    res["samples"].append({"condition": cond_id, "inputs": wi, "status": ctx.status,
                                           "obligations_discharged": ctx.discharged,
                                           "covers": list(ctx.observed.get("cover", []))[:12]})
                if want_replay and cond.replay and clean and _pick(npath, want_replay):
                    try:
                        c2 = symx.run_path(cond.fn, B, concrete_inputs=wi, cfg=cfg, rejects=cond.rejects)
                        res["replayed"] += 1
                        if c2.status != ctx.status or \
                                list(c2.observed.get("cover", [])) != list(ctx.observed.get("cover", [])):
                            res["replay_fail"].append({"inputs": wi, "sym": ctx.status, "conc": c2.status,
                                                       "conc_viol": c2.violations[:1],
                                                       "sym_cover": list(ctx.observed.get("cover", []))[:20],
                                                       "conc_cover": list(c2.observed.get("cover", []))[:20]})
                    except symx.HarnessError as e:
                        res["replay_fail"].append({"inputs": wi, "error": str(e)[:300]})
    res["leftover"] = [symx._dec_json(p) for p in stack]
    res["funcs"] = sorted(_SEEN_FUNCS)
    res["covers"] = dict(res["covers"])
    res["rejected_msgs"] = dict(res["rejected_msgs"])
    return cond_id, res


def _pick(n, mode):
    if mode == "all":
        return True
    return n % 10 == 1 or n <= 5


# ----------------------------------------------------------------------------------------------
# driver side
# ----------------------------------------------------------------------------------------------
def explore_condition(pool, cond, tier, nworkers, log):
    budget = cond.budget[tier]
    t0 = time.time()
    want_replay = "all" if tier == "thorough" else "some"
    log_queries = tier == "thorough"
    total = None
    pending = collections.deque([[]])
    inflight = []
    first = True
    timed_out = False
    while pending or inflight:
        while pending and len(inflight) < nworkers * 2:
            if time.time() - t0 > budget:
                timed_out = True
                break
            batch = [pending.popleft()]
            # small slices at the start so that the tree is split quickly
            if first:
                sl = 0.05
            else:
                sl = 0.5 if len(pending) < nworkers * 4 else 3.0
                while pending and len(batch) < 4 and len(pending) > nworkers * 8:
                    batch.append(pending.popleft())
            first = False
            inflight.append(pool.apply_async(_explore_slice, ((cond.id, batch, sl, want_replay, log_queries),)))
        if timed_out and not inflight:
            break
        done = [r for r in inflight if r.ready()]
        if not done:
            time.sleep(0.005)
            continue
        for r in done:
            inflight.remove(r)
            _, res = r.get()
            pending.extend(res.pop("leftover"))
            total = _merge(total, res)
    total = total or _merge(None, None)
    total["unexplored"] = len(pending)
    if log_queries and total["smt2"]:
        from pverif import second
        res = pool.map(second.redecide, total["smt2"][:40])
        agree = sum(1 for _, r, _ in res if r == "unsat")
        unknown = sum(1 for _, r, _ in res if r == "unknown" or r.startswith("error"))
        disagree = [lab for lab, r, _ in res if r == "sat"]
        total["second_solver"] = {"solver": "cvc5 (python wheel)", "queries": len(res), "agree_unsat": agree, "unknown_or_error": unknown,
                                  "disagree": len(disagree), "time_s": round(sum(t for _, _, t in res), 2)}
        for lab in disagree[:3]:
            total["errors"].append("second solver (cvc5) answers sat for an obligation z3 discharged: %s" % lab)
    total["smt2"] = []
    total["wall_s"] = time.time() - t0
    return total


def _merge(a, b):
    if a is None:
        a = dict(paths=0, aborted=0, rejected=0, obligations=0, discharged=0, queries=0, solver_s=0.0,
                 branches=0, forks=0, inconclusive=[], violations=[], known_hits=[], samples=[],
                 replayed=0, replay_fail=[], covers={}, assumptions=[], unknown_branch=0,
                 witness_unknown=0, errors=[], rejected_msgs={}, smt2=[], funcs=[], maxdepth=0)
    if b is None:
        return a
    for k in ("paths", "aborted", "rejected", "obligations", "discharged", "queries", "solver_s", "branches",
              "forks", "replayed", "unknown_branch", "witness_unknown"):
        a[k] += b[k]
    a["maxdepth"] = max(a["maxdepth"], b["maxdepth"])
    for k in ("inconclusive", "violations", "known_hits", "replay_fail", "errors"):
        a[k].extend(b[k])
        if len(a[k]) > 2000:
            del a[k][2000:]
    if len(a["samples"]) < 4:
        a["samples"].extend(b["samples"][: 4 - len(a["samples"])])
    if len(a["smt2"]) < 50:
        a["smt2"].extend(b["smt2"][:50 - len(a["smt2"])])
    for k, v in b["covers"].items():
        a["covers"][k] = a["covers"].get(k, 0) + v
    for k, v in b["rejected_msgs"].items():
        a["rejected_msgs"][k] = a["rejected_msgs"].get(k, 0) + v
    for x in b["assumptions"]:
        if x not in a["assumptions"]:
            a["assumptions"].append(x)
    a["funcs"] = sorted(set(a["funcs"]) | set(b["funcs"]))
    return a


def confirm_violation(cond, tier, v):
    """replay the solver's counterexample concretely against the real code"""
    B = cond.bounds[tier]
    cfg = dict(cond.cfg)
    cfg["known"] = []
    try:
        c2 = symx.run_path(cond.fn, B, concrete_inputs=v["inputs"], cfg=cfg, rejects=cond.rejects)
    except symx.HarnessError as e:
        return False, "harness error in replay: %s" % e
    if c2.status == "violated":
        return True, "%s %s" % (c2.violations[0]["label"], c2.violations[0].get("detail", ""))
    return False, "replay status %s" % c2.status


def write_replay(prop, cond, tier, v, n):
    d = os.path.join(ROOT, "replays", prop)
    os.makedirs(d, exist_ok=True)
    path = os.path.join(d, "%s_%d.py" % (cond.id.replace(".", "_"), n))
    with open(path, "w") as f:
        f.write("#!/verif/.venv/bin/python\n"
                "# counterexample found by the solver for %s (%s), label: %s\n# %s\n"
                "# exits 1 if the real code (imported from /repo) violates the property on this input\n"
                "import sys\nsys.path.insert(0, %r)\nfrom pverif.run import replay_main\n"
                "sys.exit(replay_main(%r, %r, %r, %r))\n"
                % (cond.id, tier, v["label"], str(v.get("detail", "")).replace("\n", " ")[:300], ROOT,
                   prop, cond.id, tier, v["inputs"]))
    os.chmod(path, 0o755)
    return path


def replay_main(prop, cond_id, tier, inputs):
    load(prop)
    cond = REGISTRY[cond_id]
    ok, msg = confirm_violation(cond, tier, {"inputs": inputs})
    if ok:
        print("VIOLATED: %s" % msg)
        return 1
    print("not violated (%s)" % msg)
    return 0


def main(argv=None):
    ap = argparse.ArgumentParser()
    ap.add_argument("prop")
    ap.add_argument("--tier", default=os.environ.get("VERIF_TIER", "quick"), choices=["quick", "thorough"])
    ap.add_argument("--cond", default=None, help="only conditions whose id contains this string (debugging; no evidence written)")
    ap.add_argument("--workers", type=int, default=int(os.environ.get("PVERIF_WORKERS", "16")))
    ap.add_argument("--replay", default=None)
    args = ap.parse_args(argv)
    prop, tier = args.prop, args.tier
    seed = int(os.environ.get("VERIF_SEED", "0") or 0)
    t0 = time.time()
    import logging
    logging.getLogger("polyply").setLevel(logging.CRITICAL)
    logging.getLogger("vermouth").setLevel(logging.CRITICAL)
    conds = load(prop)
    _silence_progress_bars()
    if args.cond:
        conds = [c for c in conds if args.cond in c.id]
    if not conds:
        print("no conditions for %s" % prop)
        return EXIT_HARNESS
    from pverif import selfcheck
    sc = selfcheck.run()
    if sc["failures"]:
        for f in sc["failures"]:
            print("ENGINE-SELFCHECK-FAIL %s" % f)
        return EXIT_HARNESS
    ctx = mp.get_context("fork")
    pool = ctx.Pool(args.workers, initializer=_worker_init, initargs=(prop, tier, seed))
    results = {}
    try:
        for cond in conds:
            if cond.engine == "crosshair":
                from pverif import chx
                results[cond.id] = chx.run_condition(cond, tier, args.workers)
            else:
                results[cond.id] = explore_condition(pool, cond, tier, args.workers, print)
    finally:
        pool.terminate()
        pool.join()
    # ---- verdicts ---------------------------------------------------------------------------
    exit_code = EXIT_OK
    nviol = 0
    harness_errors = []
    known_printed = set()
    kf_all = []
    kpath = os.path.join(ROOT, "known_findings.json")
    if os.path.exists(kpath):
        kf_all = json.load(open(kpath)).get("findings", [])
    kf_by_id = {k["id"]: k for k in kf_all}
    summary = []
    for cond in conds:
        r = results[cond.id]
        for e in r["errors"][:5]:
            harness_errors.append("%s: %s" % (cond.id, e))
        for fid, label in r["known_hits"]:
            if fid not in known_printed:
                known_printed.add(fid)
                print("KNOWN-FINDING: property=%s %s [%s, first hit at claim '%s' of %s]"
                      % (prop, kf_by_id[fid]["what"], fid, label, cond.id))
        seen_labels = collections.Counter()
        for v in r["violations"]:
            seen_labels[v["label"]] += 1
            if seen_labels[v["label"]] > 2:
                continue
            if cond.engine == "crosshair":
                ok, msg = v.get("confirmed", False), v.get("detail", "")
            else:
                ok, msg = confirm_violation(cond, tier, v)
            if ok:
                nviol += 1
                path = write_replay(prop, cond, tier, v, nviol)
                print("VIOLATION property=%s replay=%s" % (prop, path))
                print("  condition=%s claim=%s inputs=%s\n  %s" % (cond.id, v["label"], json.dumps(v["inputs"])[:600], msg[:600]))
                exit_code = EXIT_VIOLATION
            else:
                harness_errors.append("%s: counterexample for '%s' did not reproduce concretely (%s) inputs=%s detail=%s"
                                      % (cond.id, v["label"], msg, json.dumps(v["inputs"])[:400], str(v.get("detail"))[:300]))
        if r["replay_fail"]:
            harness_errors.append("%s: %d path replays diverged, first: %s" % (cond.id, len(r["replay_fail"]), json.dumps(r["replay_fail"][0], default=str)[:800]))
        if r["paths"] == 0 or r["obligations"] == 0:
            harness_errors.append("%s: vacuous (paths=%d obligations=%d)" % (cond.id, r["paths"], r["obligations"]))
        if r["paths"] and r["rejected"] == r["paths"] and not cond.allow_all_rejected:
            harness_errors.append("%s: every path was rejected by the code under test" % cond.id)
        missing = [a for a in cond.anchors if a not in r["funcs"]] if cond.engine == "symx" else []
        if missing and len(missing) == len(cond.anchors):
            # nothing of what the condition is about was executed: the run says nothing
            harness_errors.append("%s: anchored functions never entered: %s" % (cond.id, missing))
        elif missing:
            # e.g. a refactoring that inlined a helper: the claims were still decided on the code that ran; the evidence lists
            # the functions actually entered (functions_encoded) next to the ones the condition expected (anchors_required)
            print("NOTE property=%s condition=%s expected functions not entered (renamed or inlined?): %s" % (prop, cond.id, missing))
        miss_cov = [c for c in cond.must_cover if c not in r["covers"]]
        if miss_cov:
            harness_errors.append("%s: cover points never reached: %s" % (cond.id, miss_cov))
        inc = collections.Counter(r["inconclusive"])
        for lab, n in inc.items():
            print("INCONCLUSIVE property=%s condition=%s claim='%s' x%d (solver unknown)" % (prop, cond.id, lab, n))
        if r["unexplored"]:
            print("INCONCLUSIVE property=%s condition=%s %d subtrees unexplored (time budget)" % (prop, cond.id, r["unexplored"]))
        summary.append("%-28s paths=%-7d rejected=%-6d obligations=%-8d discharged=%-8d queries=%-8d solver=%.1fs wall=%.1fs%s"
                       % (cond.id, r["paths"], r["rejected"], r["obligations"], r["discharged"], r["queries"],
                          r["solver_s"], r["wall_s"], " replayed=%d" % r["replayed"]))
    for s in summary:
        print(s)
    if harness_errors and exit_code == EXIT_OK:
        exit_code = EXIT_HARNESS
    for h in harness_errors:
        print("HARNESS-ERROR %s" % h)
    if not args.cond:
        from pverif import evidence
        evidence.write(prop, tier, seed, conds, results, nviol, harness_errors, time.time() - t0, sc)
    print("%s %s: exit %d (%.1fs)" % (prop, tier, exit_code, time.time() - t0))
    return exit_code


if __name__ == "__main__":
    sys.exit(main())
