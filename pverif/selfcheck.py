"""Executor self-validation ("translator validation", DESIGN 1.2): every operator model of the proxies is run
on constant-valued proxies and compared with plain python / numpy on the same numbers."""
import math
import itertools
import numpy as np
import z3
from pverif import symx
from pverif.symx import SymReal, SymInt, SymBool, _rv


def _val(x):
    if isinstance(x, SymBool):
        t = z3.simplify(x.t)
        return z3.is_true(t)
    if isinstance(x, SymInt):
        return z3.simplify(x.t).as_long()
    if isinstance(x, symx.Root):
        r = _val(x.rad)
        return r ** (1.0 / x.n)
    if isinstance(x, SymReal):
        t = z3.simplify(x.t)
        return t.numerator_as_long() / t.denominator_as_long()
    return x


def run():
    fails = []
    cases = 0

    def body(sx, B):
        nonlocal cases
        R = lambda v: SymReal(_rv(v))
        I = lambda v: SymInt(z3.IntVal(v))
        reals = [0.25, -1.5, 3.0, 0.1, 2.75, -0.6]
        ints = [0, 1, -3, 7, 12]
        for a, b in itertools.product(reals, reals):
            for name, f in (("add", lambda x, y: x + y), ("sub", lambda x, y: x - y), ("mul", lambda x, y: x * y),
                            ("lt", lambda x, y: x < y), ("le", lambda x, y: x <= y), ("eq", lambda x, y: x == y),
                            ("radd", lambda x, y: (_val(y) if False else y) + x)):
                cases += 1
                got, want = _val(f(R(a), R(b))), f(a, b)
                if isinstance(want, bool):
                    ok = got == want
                else:
                    ok = abs(got - want) < 1e-12
                if not ok:
                    fails.append("%s(%r,%r): %r != %r" % (name, a, b, got, want))
            if b != 0:
                cases += 1
                if abs(_val(R(a) / R(b)) - a / b) > 1e-12:
                    fails.append("div(%r,%r)" % (a, b))
                cases += 1
                if abs(_val(a / R(b)) - a / b) > 1e-12:
                    fails.append("rdiv(%r,%r)" % (a, b))
        for a in reals:
            for p in (0, 1, 2, 3, 6, 12, -1, -2):
                cases += 1
                if a != 0 and abs(_val(R(a) ** p) - a ** p) > 1e-9 * max(1, abs(a ** p)):
                    fails.append("pow(%r,%r)" % (a, p))
            for L in (1.0, 2.5, 5.5):
                cases += 1
                if abs(_val(R(a) % L) - a % L) > 1e-12:
                    fails.append("mod(%r,%r): %r != %r" % (a, L, _val(R(a) % L), a % L))
            cases += 2
            if abs(_val(abs(R(a))) - abs(a)) > 1e-12:
                fails.append("abs(%r)" % a)
            if abs(_val(-R(a)) + a) > 1e-12:
                fails.append("neg(%r)" % a)
            if a > 0:
                cases += 3
                if abs(_val(np.sqrt(np.array([R(a)], dtype=object))[0]) - math.sqrt(a)) > 1e-12:
                    fails.append("sqrt(%r)" % a)
                if abs(_val(R(a) ** (1 / 6)) - a ** (1 / 6)) > 1e-12:
                    fails.append("root6(%r)" % a)
                if abs(_val((R(a) ** (1 / 6)) ** 12) - a ** 2) > 1e-9:
                    fails.append("root6^12(%r)" % a)
        for a, b in itertools.product(ints, ints):
            for name, f in (("iadd", lambda x, y: x + y), ("isub", lambda x, y: x - y), ("imul", lambda x, y: x * y),
                            ("ilt", lambda x, y: x < y), ("ige", lambda x, y: x >= y), ("ieq", lambda x, y: x == y),
                            ("ine", lambda x, y: x != y)):
                cases += 1
                if _val(f(I(a), I(b))) != f(a, b):
                    fails.append("%s(%r,%r)" % (name, a, b))
            if b > 0:
                cases += 2
                if _val(I(a) // b) != a // b:
                    fails.append("ifloordiv(%r,%r)" % (a, b))
                if _val(I(a) % b) != a % b:
                    fails.append("imod(%r,%r)" % (a, b))
        # numpy object arrays through the real numpy code
        vs = [np.array([0.5, -1.25, 2.0]), np.array([3.0, 0.25, -0.75]), np.array([1.0, 1.0, 1.0])]
        for u, v in itertools.product(vs, vs):
            U = np.array([R(x) for x in u], dtype=object)
            V = np.array([R(x) for x in v], dtype=object)
            cases += 6
            if abs(_val(np.dot(U, V)) - np.dot(u, v)) > 1e-12:
                fails.append("dot")
            if max(abs(_val(a) - b) for a, b in zip(np.cross(U, V), np.cross(u, v))) > 1e-12:
                fails.append("cross")
            if max(abs(_val(a) - b) for a, b in zip(U - V * 2.0 + 1, u - v * 2.0 + 1)) > 1e-12:
                fails.append("array arithmetic")
            if abs(_val(np.linalg.norm(U)) - np.linalg.norm(u)) > 1e-12:
                fails.append("norm")
            if max(abs(_val(a) - b) for a, b in zip(np.average(np.vstack([U, V]), axis=0), np.average(np.vstack([u, v]), axis=0))) > 1e-12:
                fails.append("average/vstack")
            if max(abs(_val(a) - b) for a, b in zip((U + 7.3) % np.array([5.0, 4.0, 5.5]), (u + 7.3) % np.array([5.0, 4.0, 5.5]))) > 1e-12:
                fails.append("array mod")
        # branching on constants must not fork
        cases += 1
        if not (R(1.0) < R(2.0)) or sx.forks:
            fails.append("constant branch forked")

    try:
        symx.run_path(body, {})
    except Exception as e:  # noqa
        fails.append("selfcheck crashed: %s: %s" % (type(e).__name__, e))
    # the explorer itself: 3 symbolic booleans and an int in 0..4 -> every combination exactly once
    seen = []

    def tree(sx, B):
        a, b = sx.bool("a"), sx.bool("b")
        n = sx.int("n", 0, 4)
        x = 0
        if a:
            x += 1
        if b:
            x += 2
        k = int(n)
        sx.claim(n == k, "int concretised")
        seen.append((x, k))
    stack = [[]]
    while stack:
        c = symx.run_path(tree, {}, prefix=stack.pop())
        stack.extend(c.pending)
        if c.discharged != 1:
            fails.append("explorer: claim not discharged")
    cases += 1
    if sorted(seen) != sorted(itertools.product(range(4), range(5))):
        fails.append("explorer: paths %r" % (sorted(seen),))
    return {"cases": cases, "failures": fails}


if __name__ == "__main__":
    print(run())
