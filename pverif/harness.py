"""Condition registry and small utilities shared by the harness modules."""
import contextlib
import importlib
import logging

REGISTRY = {}


class Condition:
    def __init__(self, cid, fn, **kw):
        self.id = cid
        self.fn = fn
        self.prop = cid.split(".")[0]
        self.anchors = kw.get("anchors", [])          # "module:qualname" that must be entered
        self.rejects = tuple(kw.get("rejects", ()))   # exception classes meaning "input not accepted"
        self.bounds = kw.get("bounds", {"quick": {}, "thorough": {}})
        self.replay = kw.get("replay", True)          # concrete path replay possible
        self.stubs = kw.get("stubs", [])
        self.assumes = kw.get("assumes", [])
        self.outside = kw.get("outside", [])
        self.must_cover = kw.get("must_cover", [])
        self.selector_only = kw.get("selector_only", False)
        self.cfg = kw.get("cfg", {})
        self.budget = kw.get("budget", {"quick": 150, "thorough": 1200})
        self.doc = (fn.__doc__ or "").strip()
        self.engine = kw.get("engine", "symx")
        self.allow_all_rejected = kw.get("allow_all_rejected", False)


def condition(cid, **kw):
    def deco(fn):
        c = Condition(cid, fn, **kw)
        REGISTRY[cid] = c
        return fn
    return deco


def load(prop):
    importlib.import_module("harness.%s" % prop)
    return [c for c in REGISTRY.values() if c.prop == prop]


@contextlib.contextmanager
def patched(obj, **attrs):
    """temporarily replace attributes of a module / class (the run-time stubs of DESIGN 1.2)"""
    old = {}
    missing = object()
    for k, v in attrs.items():
        old[k] = obj.__dict__.get(k, missing) if hasattr(obj, "__dict__") else getattr(obj, k, missing)
        setattr(obj, k, v)
    try:
        yield
    finally:
        for k, v in old.items():
            if v is missing:
                try:
                    delattr(obj, k)
                except AttributeError:
                    pass
            else:
                setattr(obj, k, v)


class LogCapture(logging.Handler):
    def __init__(self):
        super().__init__(level=logging.DEBUG)
        self.records = []

    def emit(self, record):
        self.records.append(record)


@contextlib.contextmanager
def capture_logs(logger_name="polyply"):
    lg = logging.getLogger(logger_name)
    h = LogCapture()
    lg.addHandler(h)
    old = lg.level
    try:
        yield h.records
    finally:
        lg.removeHandler(h)
        lg.setLevel(old)


def quiet_polyply():
    logging.getLogger("polyply").setLevel(logging.CRITICAL)
    logging.getLogger("vermouth").setLevel(logging.CRITICAL)
