"""Second solver: a sample of the obligations discharged by z3 is exported as SMT-LIB2 and re-decided by cvc5 (thorough tier)."""
import time


def decide(smt2, timeout_ms=10000):
    import cvc5
    slv = cvc5.Solver()
    slv.setOption("tlimit-per", str(timeout_ms))
    slv.setLogic("ALL")
    parser = cvc5.InputParser(slv)
    text = "\n".join(l for l in smt2.split("\n") if not l.startswith("(set-logic") and not l.startswith("(check-sat") and not l.startswith("(set-info"))
    parser.setStringInput(cvc5.InputLanguage.SMT_LIB_2_6, text, "query")
    sm = parser.getSymbolManager()
    while True:
        cmd = parser.nextCommand()
        if cmd.isNull():
            break
        cmd.invoke(slv, sm)
    r = slv.checkSat()
    if r.isUnsat():
        return "unsat"
    if r.isSat():
        return "sat"
    return "unknown"


def redecide(item):
    label, smt2 = item
    t0 = time.time()
    try:
        r = decide(smt2)
    except Exception as e:  # noqa
        r = "error:%s" % type(e).__name__
    return label, r, time.time() - t0
