#!/bin/sh
# Build /verif/.venv: a venv layered over /venv (the repository's interpreter and dependencies)
# plus z3-solver, crosshair-tool and cvc5 from the offline wheelhouse. Idempotent, offline.
set -e
cd "$(dirname "$0")"
V=/verif/.venv
STAMP=$V/.pverif-ok
[ -f "$STAMP" ] && exit 0
(
  flock 9
  [ -f "$STAMP" ] && exit 0
  rm -rf "$V"
  /venv/bin/python -m venv "$V"
  SP=$("$V/bin/python" -c 'import sysconfig; print(sysconfig.get_paths()["purelib"])')
  printf '%s\n' "import site; site.addsitedir('/venv/lib/python3.12/site-packages')" > "$SP/pverif_overlay.pth"
  printf '%s\n' "/repo" >> "$SP/pverif_overlay.pth"
  PIP_NO_INDEX=1 "$V/bin/pip" install -q --no-index --find-links /opt/veriftools/wheels z3-solver crosshair-tool cvc5 >/dev/null 2>&1 || \
  PIP_NO_INDEX=1 "$V/bin/pip" install --no-index --find-links /opt/veriftools/wheels z3-solver crosshair-tool cvc5
  "$V/bin/python" -c 'import z3, polyply, vermouth, networkx, numpy, scipy, crosshair'
  touch "$STAMP"
) 9>/verif/.venv.lock
